"""pyvc.sym -- symbolic proxy objects (z3 terms behind Python objects) and the *trusted layer* of built-in
collections.  A proxy method either returns a term, adds axioms to the path condition, forks, records an
obligation, or raises Unsupported; it never guesses.
"""
from __future__ import annotations

import z3

from .core import C, Unsupported, UnsupportedAttribute

# ------------------------------------------------------------------------------------------------------------
# sorts of the semantic model (DESIGN.md 3.1)
# ------------------------------------------------------------------------------------------------------------
Id = z3.DeclareSort("Id")  # node identifiers (strings in the code; their structure is not used)
Fut = z3.DeclareSort("Fut")  # concurrent.futures.Future / asyncio.Task objects
Val = z3.DeclareSort("Val")  # arbitrary Python values produced by node functions
Key = z3.DeclareSort("Key")  # one indexing key
KPath = z3.DeclareSort("KPath")  # list of keys (UsageExecNode.key)
Exc = z3.DeclareSort("Exc")  # exception objects
ResSort, (R_MAIN, R_THREAD, R_ASYNC) = z3.EnumSort("Resource", ["main_thread", "thread", "async_thread"])
B = z3.BoolSort()
I = z3.IntSort()


def SetSort(s):
    return z3.ArraySort(s, B)


none = z3.Const("none", Val)
truthy = z3.Function("truthy", Val, B)
getitem = z3.Function("getitem", Val, Key, Val)
getpath = z3.Function("getpath", Val, KPath, Val)
kp_empty = z3.Const("kp_empty", KPath)
kp_append = z3.Function("kp_append", KPath, Key, KPath)
int_val = z3.Function("int_val", I, Val)  # injection of ints into values (constants such as indices)


def val_axioms():
    v, p, k = z3.Const("v", Val), z3.Const("p", KPath), z3.Const("k", Key)
    return [
        z3.Not(truthy(none)),
        z3.ForAll([v], getpath(v, kp_empty) == v),
        z3.ForAll([v, p, k], getpath(v, kp_append(p, k)) == getitem(getpath(v, p), k)),
        z3.ForAll([p, k], kp_append(p, k) != kp_empty),
    ]


def bv(name, sort):
    """bound variable"""
    return z3.Const(name, sort)


# ------------------------------------------------------------------------------------------------------------
# scalars
# ------------------------------------------------------------------------------------------------------------
class Sym:
    """Base of all proxies.  Not hashable: a proxy must never silently land in a native set/dict."""

    __hash__ = None  # type: ignore[assignment]

    def __format__(self, spec):
        return f"<{type(self).__name__}>"

    def __repr__(self):
        return f"<{type(self).__name__}>"

    __str__ = __repr__

    def __getattr__(self, name):
        raise UnsupportedAttribute(f"attribute '{name}' of {type(self).__name__} is not modelled")


class SBool(Sym):
    def __init__(self, t):
        self.t = z3.BoolVal(t) if isinstance(t, bool) else t

    def __bool__(self):
        return C.fork(self.t, "bool")

    def __and__(self, o):
        return SBool(z3.And(self.t, tb(o)))

    def __or__(self, o):
        return SBool(z3.Or(self.t, tb(o)))

    def __invert__(self):
        return SBool(z3.Not(self.t))

    def __eq__(self, o):
        return SBool(self.t == tb(o))

    def __ne__(self, o):
        return SBool(self.t != tb(o))


def tb(x):
    if isinstance(x, SBool):
        return x.t
    if isinstance(x, bool):
        return z3.BoolVal(x)
    if z3.is_bool(x):
        return x
    raise Unsupported(f"boolean expected, got {type(x).__name__}")


class SInt(Sym):
    def __init__(self, t):
        self.t = z3.IntVal(t) if isinstance(t, int) else t

    def _b(self, o, f):
        return SInt(f(self.t, ti(o)))

    def __add__(self, o):
        return self._b(o, lambda a, b: a + b)

    __radd__ = __add__

    def __sub__(self, o):
        return self._b(o, lambda a, b: a - b)

    def __rsub__(self, o):
        return SInt(ti(o) - self.t)

    def __mul__(self, o):
        if isinstance(o, SInt):
            raise Unsupported("non-linear arithmetic")
        return SInt(self.t * o)

    __rmul__ = __mul__

    def __neg__(self):
        return SInt(-self.t)

    def __eq__(self, o):
        return SBool(self.t == ti(o)) if isinstance(o, (int, SInt)) and not isinstance(o, bool) else SBool(False)

    def __ne__(self, o):
        return SBool(self.t != ti(o)) if isinstance(o, (int, SInt)) and not isinstance(o, bool) else SBool(True)

    def __lt__(self, o):
        return SBool(self.t < ti(o))

    def __le__(self, o):
        return SBool(self.t <= ti(o))

    def __gt__(self, o):
        return SBool(self.t > ti(o))

    def __ge__(self, o):
        return SBool(self.t >= ti(o))

    def __bool__(self):
        return C.fork(self.t != 0, "int truth")

    def __index__(self):
        raise Unsupported("concrete value of a symbolic int needed")


def ti(x):
    if isinstance(x, SInt):
        return x.t
    if isinstance(x, bool):
        raise Unsupported("bool used as int")
    if isinstance(x, int):
        return z3.IntVal(x)
    if z3.is_int(x):
        return x
    raise Unsupported(f"int expected, got {type(x).__name__}")


class STerm(Sym):
    """A value of an uninterpreted sort (Id, Fut, Key, Exc ...)."""

    def __init__(self, t):
        self.t = t

    def __eq__(self, o):
        if isinstance(o, STerm) and o.t.sort() == self.t.sort():
            return SBool(self.t == o.t)
        if isinstance(o, STerm):
            return SBool(False)
        raise Unsupported(f"comparison of {type(self).__name__} with {type(o).__name__}")

    def __ne__(self, o):
        return ~self.__eq__(o)


class SId(STerm):
    pass


class SFut(STerm):
    """A future.  `result()` is delegated to the ghost hooks of the function under verification."""

    def result(self):
        return C.ghost["hooks"].future_result(self)


class SVal(STerm):
    """An arbitrary Python value (node result, constant)."""

    def __bool__(self):
        return C.fork(truthy(self.t), "truthiness of a value")

    def __getitem__(self, key):
        return SVal(getitem(self.t, tkey(key)))

    def _is_none(self):
        return SBool(self.t == none)


def tkey(k):
    if isinstance(k, STerm) and k.t.sort() == Key:
        return k.t
    raise Unsupported("symbolic key expected")


def tval(x):
    """Python value -> term of sort Val"""
    if x is None:
        return none
    if isinstance(x, SVal):
        return x.t
    if z3.is_expr(x) and x.sort() == Val:
        return x
    if hasattr(x, "_vc_val"):
        return x._vc_val()
    raise Unsupported(f"value expected, got {type(x).__name__}")


def wrap(t):
    s = t.sort()
    if s == B:
        return SBool(t)
    if s == I:
        return SInt(t)
    if s == Id:
        return SId(t)
    if s == Fut:
        return SFut(t)
    if s == Val:
        return SVal(t)
    return STerm(t)


def term(x, sort=None):
    if isinstance(x, (SBool, SInt, STerm)):
        return x.t
    if sort == Val:
        return tval(x)
    if isinstance(x, bool):
        return z3.BoolVal(x)
    if isinstance(x, int):
        return z3.IntVal(x)
    if z3.is_expr(x):
        return x
    raise Unsupported(f"cannot turn {type(x).__name__} into a term")


class SOpt(Sym):
    """Optional[X]: `has` tells whether it is not None; every other attribute is delegated to the payload and
    generates the obligation 'not None' (an AttributeError on None would be an internal error)."""

    def __init__(self, has, payload, what="optional"):
        object.__setattr__(self, "_has", has)
        object.__setattr__(self, "_payload", payload)
        object.__setattr__(self, "_what", what)

    def _is_none(self):
        return SBool(z3.Not(self._has))

    def __getattr__(self, name):
        C.check(self._has, f"no_internal_error.{self._what}_not_None", serves={"C14"}, kind="internal")
        C.assume(self._has)
        return getattr(self._payload, name)


# ------------------------------------------------------------------------------------------------------------
# sets
# ------------------------------------------------------------------------------------------------------------
def card_axioms(a, c, sort, tag="el"):
    v = bv("v!c", sort)
    el = C.fresh(tag, sort)
    return [c >= 0, z3.Implies(c == 0, z3.ForAll([v], z3.Not(a[v]))), z3.Implies(c > 0, a[el])]


class SSet(Sym):
    """Python set of elements of one uninterpreted sort; `a` characteristic array, `c` ghost cardinality with weak
    axioms (c >= 0, c = 0 => empty, c > 0 => some element)."""

    def __init__(self, sort=None, a=None, c=None, name="set"):
        self.sort, self.name = sort, name
        if sort is not None and a is None:
            a, c = z3.K(sort, False), z3.IntVal(0)
        if sort is None:
            c = z3.IntVal(0)
        self.a, self.c = a, c
        self._serial = C.next_serial()

    # -- construction
    @staticmethod
    def fresh(name, sort):
        a = C.fresh(name, SetSort(sort))
        c = C.fresh("c_" + name, I)
        C.assume(card_axioms(a, c, sort, "el_" + name))
        return SSet(sort, a, c, name)

    @staticmethod
    def define(name, sort, pred):
        """the set { v | pred(v) }"""
        if C.binder:
            # under a binder nothing may be a fresh constant: the set is the lambda term itself
            q = bv("v!df", sort)
            return SSet(sort, z3.Lambda([q], pred(q)), C.fresh("c_" + name, I), name)
        s = SSet.fresh(name, sort)
        v = bv("v!d", sort)
        C.assume(z3.ForAll([v], s.a[v] == pred(v)))
        return s

    def _typed(self, sort):
        if self.sort is None:
            self.sort, self.a, self.c = sort, z3.K(sort, False), z3.IntVal(0)
        elif self.sort != sort:
            raise Unsupported("heterogeneous set")

    def _touch(self):
        C.mutated[id(self)] = self

    def havoc(self, name=None):
        if self.sort is None:
            raise Unsupported("havoc of an untyped set")
        n = SSet.fresh(name or self.name, self.sort)
        self.a, self.c = n.a, n.c

    # -- queries
    def _vc_len(self):
        return SInt(self.c)

    def _vc_contains(self, x):
        if self.sort is None:
            return SBool(False)
        return SBool(self.a[term(x)])

    def mem(self, t):
        return self.a[t] if self.sort is not None else z3.BoolVal(False)

    def _vc_bool(self):
        return SBool(self.c != 0) if self.sort is not None else SBool(False)

    def __bool__(self):
        return bool(self._vc_bool())

    def copy(self):
        return SSet(self.sort, self.a, self.c, self.name)

    def _vc_subst(self, v, w):
        return SSet(self.sort, z3.substitute(self.a, (v, w)), self.c, self.name)

    def issubset(self, o):
        o = as_set(o, self.sort)
        if self.sort is None:
            return SBool(True)
        v = bv("v!s", self.sort)
        return SBool(z3.ForAll([v], z3.Implies(self.a[v], o.mem(v))))

    def isdisjoint(self, o):
        o = as_set(o, self.sort)
        if self.sort is None or o.sort is None:
            return SBool(True)
        v = bv("v!s", self.sort)
        return SBool(z3.ForAll([v], z3.Not(z3.And(self.a[v], o.mem(v)))))

    # -- pure operations
    def _binop(self, o, f, name, card_rel):
        o = as_set(o, self.sort)
        if self.sort is None and o.sort is None:
            return SSet()
        sort = self.sort if self.sort is not None else o.sort
        r = SSet.fresh(name, sort)
        v = bv("v!u", sort)
        C.assume(z3.ForAll([v], r.a[v] == f(self.mem(v), o.mem(v))))
        cs = self.c if self.sort is not None else z3.IntVal(0)
        co = o.c if o.sort is not None else z3.IntVal(0)
        C.assume(card_rel(r.c, cs, co))
        return r

    def union(self, *others):
        if self.sort is None and all(isinstance(o, (set, frozenset, list, tuple)) and not any(isinstance(e, Sym) for e in o) for o in others):
            return set().union(*others)  # the empty set literal met only concrete operands: plain Python
        r = self
        for o in others:
            r = r._binop(o, lambda a, b: z3.Or(a, b), "union", lambda c, c1, c2: z3.And(c >= c1, c >= c2, c <= c1 + c2))
        return r.copy() if r is self else r

    __or__ = union

    def __ror__(self, o):
        # a concrete Python set on the left (e.g. `real_set | set(nodes)` with an empty `nodes`)
        if self.sort is None and isinstance(o, (set, frozenset)) and not any(isinstance(e, Sym) for e in o):
            return set(o)
        return as_set(o, self.sort).union(self)

    def difference(self, o):
        return self._binop(o, lambda a, b: z3.And(a, z3.Not(b)), "diff", lambda c, c1, c2: z3.And(c <= c1, c >= c1 - c2))

    __sub__ = difference

    def intersection(self, o):
        return self._binop(o, lambda a, b: z3.And(a, b), "inter", lambda c, c1, c2: z3.And(c <= c1, c <= c2))

    __and__ = intersection

    # -- mutation (in place, like Python)
    def add(self, x):
        t = term(x)
        self._typed(t.sort())
        self._touch()
        self.c = z3.simplify(self.c + z3.If(self.a[t], 0, 1))
        self.a = z3.Store(self.a, t, True)

    def remove(self, x):
        t = term(x)
        self._typed(t.sort())
        C.check(self.a[t], "no_internal_error.set_remove_member", serves={"C14"}, kind="internal")
        C.assume(self.a[t])
        self._touch()
        self.c = z3.simplify(self.c - 1)
        self.a = z3.Store(self.a, t, False)

    def discard(self, x):
        t = term(x)
        self._typed(t.sort())
        self._touch()
        self.c = z3.simplify(self.c - z3.If(self.a[t], 1, 0))
        self.a = z3.Store(self.a, t, False)

    def __ior__(self, o):
        r = self.union(o)
        self._touch()
        self.sort, self.a, self.c = r.sort, r.a, r.c
        return self

    def __isub__(self, o):
        r = self.difference(o)
        self._touch()
        self.sort, self.a, self.c = r.sort, r.a, r.c
        return self

    def update(self, o):
        self.__ior__(o)

    def __iter__(self):
        raise Unsupported("native iteration over a symbolic set")

    # -- symbolic iteration protocol (loop rule / comprehension)
    def _vc_iter(self):
        if self.sort is None:
            return SIter(Id, lambda v: z3.BoolVal(False), lambda v: SId(v), count=z3.IntVal(0))
        a = self.a  # snapshot: mutating a set while iterating over it is an error in Python
        return SIter(self.sort, lambda v: a[v], lambda v: wrap(v), count=self.c)


class SIter(Sym):
    """A symbolic finite collection: elements are `elem(v)` for the `v` of sort `sort` with `pred(v)`; the order of
    iteration is arbitrary.  `distinct`: the elements are pairwise distinct (set, dict keys, graph nodes)."""

    def __init__(self, sort, pred, elem, count=None, distinct=True):
        self.sort, self.pred, self.elem, self.count, self.distinct = sort, pred, elem, count, distinct

    def _vc_iter(self):
        return self

    def __iter__(self):
        raise Unsupported("native iteration over a symbolic collection")

    def _vc_len(self):
        if self.count is None:
            raise Unsupported("length of a symbolic collection without a tracked size")
        return SInt(self.count)

    def _vc_bool(self):
        v = bv("v!nb", self.sort)
        return SBool(z3.Exists([v], self.pred(v)))

    def __bool__(self):
        return bool(self._vc_bool())

    def _vc_contains(self, x):
        v = bv("v!ic", self.sort)
        e = self.elem(v)
        if not isinstance(e, (SBool, SInt, STerm)):
            raise Unsupported("membership test in a collection of non-scalar proxies")
        return SBool(z3.Exists([v], z3.And(self.pred(v), e.t == term(x))))

    def to_set(self, name="coll"):
        """only for collections whose elements are the bound variable itself"""
        v = bv("v!t", self.sort)
        probe = self.elem(v)
        if not (isinstance(probe, STerm) and z3.eq(probe.t, v)):
            raise Unsupported("set() of a mapped symbolic collection")
        s = SSet.define(name, self.sort, self.pred)
        if self.count is not None:
            C.assume(s.c <= self.count)
        return s


def as_set(o, sort_hint=None):
    if isinstance(o, SSet):
        return o
    if isinstance(o, SList):
        return o.as_set()
    if isinstance(o, SSeq):
        return o.as_set()
    if isinstance(o, SIter):
        return o.to_set()
    if isinstance(o, (set, frozenset, list, tuple)):
        s = SSet(sort_hint) if not o else SSet()
        s = s.copy()
        for e in o:
            s.add(e)
        return s
    raise Unsupported(f"set expected, got {type(o).__name__}")


class SList(Sym):
    """A Python list of terms of one sort, abstracted to the *set* of its elements plus its length.  Sound for code
    that uses a list for membership, iteration (any order is covered by the loop rule) and append.  Indexing a
    symbolic list is not supported."""

    def __init__(self, sset, length=None):
        self.s = sset
        self.length = length if length is not None else C.fresh("len", I)
        C.assume(self.length >= self.s.c)
        self._serial = C.next_serial()

    @staticmethod
    def fresh(name, sort):
        return SList(SSet.fresh(name, sort))

    def as_set(self):
        return self.s.copy()

    def _vc_parts(self):
        return (self.s,)

    def _vc_bool(self):
        return SBool(self.length != 0)

    def __bool__(self):
        return bool(self._vc_bool())

    def _vc_subst(self, v, w):
        return SList(self.s._vc_subst(v, w), self.length)

    def _vc_contains(self, x):
        return self.s._vc_contains(x)

    def _vc_len(self):
        return SInt(self.length)

    def _vc_iter(self):
        # live view: a list that is appended to while being iterated also yields the new elements
        return SIter(self.s.sort, lambda v: self.s.mem(v), lambda v: wrap(v), count=None, distinct=False)

    def append(self, x):
        self.s.add(x)
        C.mutated[id(self)] = self
        self.length = self.length + 1

    def copy(self):
        return SList(self.s.copy(), self.length)

    def __add__(self, o):
        if isinstance(o, SList):
            return SList(self.s.union(o.s), self.length + o.length)
        raise Unsupported("list + non-list")

    def havoc(self):
        self.s.havoc()
        self.length = C.fresh("len", I)
        C.assume(self.length >= self.s.c)

    def __iter__(self):
        raise Unsupported("native iteration over a symbolic list")


# ------------------------------------------------------------------------------------------------------------
# maps
# ------------------------------------------------------------------------------------------------------------
class SMap(Sym):
    """dict / StrictDict / defaultdict with keys of sort `ks` and values of sort `vs`.

    `dom` characteristic array of the key set, `val` total array (meaningful on dom), `strict`: StrictDict semantics
    of item assignment, `default`: defaultdict default term (then lookups never fail and `dom` is not used),
    `on_missing`: 'obligation' (a KeyError would be an internal error) or 'raise' (fork and raise KeyError)."""

    def __init__(self, ks, vs, dom, val, strict=False, default=None, on_missing="obligation", name="map", cdom=None):
        self.ks, self.vs, self.dom, self.val = ks, vs, dom, val
        self.strict, self.default, self.on_missing, self.name = strict, default, on_missing, name
        self.cdom = cdom
        self.wrapv = wrap
        self._serial = C.next_serial()

    @staticmethod
    def fresh(name, ks, vs, **kw):
        m = SMap(ks, vs, C.fresh("dom_" + name, SetSort(ks)), C.fresh("val_" + name, z3.ArraySort(ks, vs)), name=name, **kw)
        return m

    @staticmethod
    def empty(ks, vs, **kw):
        return SMap(ks, vs, z3.K(ks, False), C.fresh("val0", z3.ArraySort(ks, vs)), cdom=z3.IntVal(0), **kw)

    def _touch(self):
        C.mutated[id(self)] = self

    def havoc(self):
        self.dom = C.fresh("dom_" + self.name, SetSort(self.ks))
        self.val = C.fresh("val_" + self.name, z3.ArraySort(self.ks, self.vs))
        self.cdom = None

    def clone(self):
        m = SMap(self.ks, self.vs, self.dom, self.val, self.strict, self.default, self.on_missing, self.name, self.cdom)
        m.wrapv = self.wrapv
        return m

    def has(self, k):
        return self.dom[k]

    def at(self, k):
        return self.val[k]

    def _vc_contains(self, k):
        if self.default is not None:
            raise Unsupported("membership test on a defaultdict view")
        return SBool(self.dom[term(k)])

    def __getitem__(self, k):
        kt = term(k)
        if self.default is not None:
            return self.wrapv(self.val[kt])
        if self.on_missing == "raise":
            if not C.fork(self.dom[kt], f"{self.name}: key present"):
                raise KeyError(k)
        else:
            C.check(self.dom[kt], f"no_internal_error.{self.name}_key_present", serves={"C14"}, kind="internal")
            C.assume(self.dom[kt])
        return self.wrapv(self.val[kt])

    def get(self, k, default=None):
        kt = term(k)
        if C.fork(self.dom[kt], f"{self.name}.get: key present"):
            return self.wrapv(self.val[kt])
        return default

    def __setitem__(self, k, v):
        kt = term(k)
        vt = term(v, self.vs)
        if self.strict:
            if self.on_missing == "raise":
                if C.fork(self.dom[kt], f"{self.name}: StrictDict key occupied"):
                    raise KeyError(k)
            else:
                C.check(z3.Not(self.dom[kt]), f"no_internal_error.{self.name}_strict_key_absent", serves={"C14", "C03"}, kind="internal")
                C.assume(z3.Not(self.dom[kt]))
        self._set(kt, vt)

    def _set(self, kt, vt):
        self._touch()
        if self.cdom is not None:
            self.cdom = z3.simplify(self.cdom + z3.If(self.dom[kt], 0, 1))
        self.dom = z3.Store(self.dom, kt, True)
        self.val = z3.Store(self.val, kt, vt)

    def force_set(self, k, v):
        self._set(term(k), term(v, self.vs))

    def __delitem__(self, k):
        kt = term(k)
        C.check(self.dom[kt], f"no_internal_error.{self.name}_del_key_present", serves={"C14"}, kind="internal")
        C.assume(self.dom[kt])
        self._touch()
        self.dom = z3.Store(self.dom, kt, False)
        self.cdom = None

    def _vc_len(self):
        if self.cdom is None:
            self.cdom = C.fresh("c_" + self.name, I)
            C.assume(card_axioms(self.dom, self.cdom, self.ks))
        return SInt(self.cdom)

    def _vc_iter(self):
        return SIter(self.ks, lambda v: self.dom[v], lambda v: wrap(v))

    def keys(self):
        return self._vc_iter()

    def items(self):
        return SIter(self.ks, lambda v: self.dom[v], lambda v: (wrap(v), self.wrapv(self.val[v])))

    def values(self):
        return SIter(self.ks, lambda v: self.dom[v], lambda v: self.wrapv(self.val[v]))

    def __iter__(self):
        raise Unsupported("native iteration over a symbolic map")

    def _vc_bool(self):
        return SBool(self._vc_len().t != 0)

    def __bool__(self):
        if self.default is not None:
            raise Unsupported("truth value of a defaultdict view")
        return bool(self._vc_bool())

    def same_as(self, o):
        """formula: equal as finite maps"""
        k = bv("k!m", self.ks)
        return z3.And(z3.ForAll([k], self.dom[k] == o.dom[k]), z3.ForAll([k], z3.Implies(self.dom[k], self.val[k] == o.val[k])))


# ------------------------------------------------------------------------------------------------------------
# helpers injected into the namespace of the function under verification (shadowing the builtins)
# ------------------------------------------------------------------------------------------------------------
class Binder:
    """`with Binder(v, guard):` -- evaluation under the quantifier `forall v. guard(v) => ...`: forks are not
    allowed inside; obligations generated inside are deferred and emitted universally quantified on exit."""

    def __init__(self, var, guard=None):
        self.var, self.guard = var, (z3.BoolVal(True) if guard is None else guard)

    def __enter__(self):
        C.binder += 1
        C.binder_frames.append((self.var, self.guard, []))

    def __exit__(self, et, ev, tb_):
        C.binder -= 1
        var, guard, checks = C.binder_frames.pop()
        if et is None:
            for goal, name, serves, kind, note in checks:
                C.check(z3.ForAll([var], z3.Implies(guard, goal)), name, serves, kind, note)
        return False


def vc_len(o):
    if hasattr(o, "_vc_len"):
        return o._vc_len()
    return len(o)


def vc_contains(container, x):
    if hasattr(container, "_vc_contains"):
        return container._vc_contains(x)
    if isinstance(x, Sym):
        if isinstance(container, (list, tuple, set, frozenset)) or type(container).__name__ in ("dict_keys",):
            r = SBool(False)
            for e in container:
                eq = x == e  # the proxy on the left: its __eq__ knows how to compare with a concrete value
                if isinstance(eq, SBool):
                    r = r | eq
                elif eq is True:
                    return SBool(True)
            return r
        raise Unsupported(f"symbolic element in concrete {type(container).__name__}")
    return x in container


def vc_not(x):
    if isinstance(x, SBool):
        return ~x
    if isinstance(x, SSet):
        return ~x._vc_bool()
    if isinstance(x, Sym) and C.binder:
        raise Unsupported("not on a non-boolean proxy under a binder")
    return not x


def vc_and(*thunks):
    """short-circuit `and` (operands are thunks).  Outside a binder: exact Python semantics through forks.
    Under a binder: symbolic conjunction (operands must be side-effect free)."""
    if C.binder:
        r = None
        for th in thunks:
            v = th()
            if isinstance(v, bool):
                if not v:
                    return False if r is None else SBool(False)
                continue
            r = v if r is None else (r & v)
        return True if r is None else r
    v = True
    for th in thunks:
        v = th()
        if not v:
            return v
    return v


def vc_or(*thunks):
    if C.binder:
        r = None
        for th in thunks:
            v = th()
            if isinstance(v, bool):
                if v:
                    return True if r is None else SBool(True)
                continue
            r = v if r is None else (r | v)
        return False if r is None else r
    v = False
    for th in thunks:
        v = th()
        if v:
            return v
    return v


def vc_is(a, b):
    if b is None and hasattr(a, "_is_none"):
        return a._is_none()
    if a is None and hasattr(b, "_is_none"):
        return b._is_none()
    if isinstance(a, Sym) and isinstance(b, Sym):
        if a is b:
            return True
        raise Unsupported("identity of two proxies")
    return a is b


def vc_is_not(a, b):
    return vc_not(vc_is(a, b))


def vc_bool(x):
    if isinstance(x, SBool):
        return x
    if isinstance(x, SVal):
        return SBool(truthy(x.t))
    if isinstance(x, SInt):
        return SBool(x.t != 0)
    if hasattr(x, "_vc_bool"):
        return x._vc_bool()
    return bool(x)


def vc_set(it=()):
    if isinstance(it, SSet):
        return it.copy()
    if isinstance(it, SSeq):
        return it.as_set()
    if isinstance(it, SList):
        return it.as_set()
    if isinstance(it, SIter):
        return it.to_set()
    if hasattr(it, "_vc_iter"):
        return it._vc_iter().to_set()
    items = list(it)
    if items and not any(isinstance(e, Sym) for e in items):
        return set(items)  # a set of concrete values (e.g. keyword names) is a real set
    s = SSet()
    for e in items:
        s.add(e)
    return s


def vc_list(it=()):
    if hasattr(it, "_vc_as"):
        return it._vc_as(list)
    if isinstance(it, SSeq):
        return SSeq(it.n, it.at, list, it.name)
    if isinstance(it, SIter) and getattr(it, "_indexed", None) is not None:
        return SSeq(it._indexed[0], it.elem, list)
    if isinstance(it, SList):
        return it.copy()
    if isinstance(it, SSet):
        return SList(it.copy(), it.c)
    if isinstance(it, SIter):
        s = it.to_set()
        return SList(s, it.count)
    if hasattr(it, "_vc_iter"):
        return vc_list(it._vc_iter())
    return list(it)


def vc_min(it, key=None):
    return vc_max(it, key=key, _min=True)


def vc_max(it, key=None, _min=False):
    if not hasattr(it, "_vc_iter"):
        f = min if _min else max
        return f(it, key=key) if key else f(it)
    col = it._vc_iter()
    v = bv("v!m", col.sort)
    h = C.fresh("argmax", col.sort)
    # max() of an empty collection raises ValueError: internal error
    some = C.fresh("some", col.sort)
    if col.count is not None:
        C.check(col.count > 0, "no_internal_error.max_of_nonempty", serves={"C14"}, kind="internal")
        C.assume(col.count > 0)
    else:
        raise Unsupported("max of a collection without tracked size")
    del some
    C.assume(col.pred(h))
    if key is not None:
        with Binder(v, col.pred(v)):
            kv = key(col.elem(v))
        kh = key(col.elem(h))
        C.assume(z3.ForAll([v], z3.Implies(col.pred(v), (ti(kv) >= ti(kh)) if _min else (ti(kv) <= ti(kh)))))
    else:
        raise Unsupported("max without key over symbolic collection")
    return col.elem(h)


def _real_types(cls):
    m = {vc_tuple: tuple, vc_list: list, vc_set: set, vc_bool: bool}
    if isinstance(cls, tuple):
        return tuple(_real_types(c) for c in cls)
    try:
        return m.get(cls, cls)
    except TypeError:
        return cls


def vc_isinstance(x, cls):
    cls = _real_types(cls)
    if hasattr(x, "_vc_isinstance"):
        return x._vc_isinstance(cls)
    if isinstance(x, Sym):
        raise Unsupported(f"isinstance on {type(x).__name__}")
    return isinstance(x, cls)


def comp(kind, iterable, elt, cond=None):
    """Comprehension `{elt(x) for x in iterable if cond(x)}` (kind: 'set' | 'list' | 'gen').  Concrete iterable:
    evaluated natively.  Symbolic: a fresh collection defined by calling the lambdas once on a bound variable."""
    if not hasattr(iterable, "_vc_iter"):
        if kind == "set":
            out = set()
            proxies = []
            for x in iterable:
                if cond is None or cond(x):
                    proxies.append(elt(x))
            if any(isinstance(p, Sym) for p in proxies):
                return vc_set(proxies)
            return set(proxies)
        res = [elt(x) for x in iterable if (cond is None or cond(x))]
        return res
    col = iterable._vc_iter()
    v = bv("v!q", col.sort)
    x = col.elem(v)
    with Binder(v, col.pred(v)):
        c = cond(x) if cond is not None else True
    ct = tb(c)
    with Binder(v, z3.And(col.pred(v), ct)):
        e = elt(x)
    newpred = lambda w: z3.substitute(z3.And(col.pred(v), ct), (v, w))  # noqa: E731
    if isinstance(e, STerm) and z3.eq(e.t, v):
        newelem = col.elem if False else (lambda w: wrap(w))
        it = SIter(col.sort, newpred, newelem, count=None)
        if kind == "set":
            s = it.to_set("comp")
            if col.count is not None:
                C.assume(s.c <= col.count)
            return s
        if kind == "list":
            s = it.to_set("comp")
            n = C.fresh("complen", I)
            if col.distinct:
                C.assume(n == s.c)  # elements of the source are distinct (set / dict keys / graph nodes)
            return SList(s, n)
        return it
    # mapped comprehension: keep as SIter with an element function of the bound variable
    def elem(w, e=e):
        return _subst_proxy(e, v, w)

    cnt = col.count if cond is None else None
    it = SIter(col.sort, newpred, elem, count=cnt)
    if cond is None and getattr(col, "_indexed", None) is not None:
        it._indexed = col._indexed  # an order preserving map over a sequence
        if kind == "list":
            return SSeq(col._indexed[0], elem, list)
    if kind in ("list", "gen"):
        return it
    raise Unsupported("mapped set comprehension over a symbolic collection")


def _subst_proxy(p, v, w):
    if isinstance(p, tuple):
        return tuple(_subst_proxy(q, v, w) for q in p)
    if isinstance(p, (SBool, SInt, STerm)):
        return type(p)(z3.substitute(p.t, (v, w)))
    if hasattr(p, "_vc_subst"):
        return p._vc_subst(v, w)
    if not isinstance(p, Sym):
        return p
    raise Unsupported(f"substitution in {type(p).__name__}")


class Inert:
    """logger and the like: every attribute is a no-op callable"""

    def __getattr__(self, name):
        return lambda *a, **k: None


def K_false(sort):
    return z3.K(sort, False)


class SSeq(Sym):
    """A Python tuple / list of symbolic length: `n` (Int term) and `at(i)` (Int term -> proxy).  Immutable view."""

    def __init__(self, n, at, kind=tuple, name="seq"):
        self.n, self.at, self.kind, self.name = n, at, kind, name

    @staticmethod
    def fresh(name, elem_of_index, kind=tuple):
        n = C.fresh("len_" + name, I)
        C.assume(n >= 0)
        return SSeq(n, elem_of_index, kind, name)

    def _vc_len(self):
        return SInt(self.n)

    def _vc_bool(self):
        return SBool(self.n != 0)

    def __bool__(self):
        return bool(self._vc_bool())

    def __getitem__(self, i):
        it = ti(i)
        C.check(z3.And(it >= 0, it < self.n), f"no_internal_error.{self.name}_index_in_range", serves={"C14"}, kind="internal")
        C.assume(it >= 0, it < self.n)
        return self.at(it)

    def _vc_iter(self):
        it = SIter(I, lambda i: z3.And(i >= 0, i < self.n), lambda i: self.at(i), count=self.n)
        it._indexed = (self.n, self.kind)
        return it

    def _vc_enumerate(self):
        it = SIter(I, lambda i: z3.And(i >= 0, i < self.n), lambda i: (SInt(i), self.at(i)), count=self.n)
        it._indexed = (self.n, self.kind)
        return it

    def _vc_isinstance(self, cls):
        classes = cls if isinstance(cls, tuple) else (cls,)
        return any(issubclass(self.kind, c) for c in classes if isinstance(c, type))

    def _vc_contains(self, x):
        i = bv("i!sc", I)
        e = self.at(i)
        if not isinstance(e, (SBool, SInt, STerm)):
            raise Unsupported("membership test in a sequence of non-scalar proxies")
        return SBool(z3.Exists([i], z3.And(i >= 0, i < self.n, e.t == term(x))))

    def _scalar_sort(self):
        e = self.at(bv("i!ss", I))
        if not isinstance(e, STerm):
            raise Unsupported("set / concatenation of a sequence of non-scalar proxies")
        return e.t.sort(), type(e)

    def as_set(self, name="seq_elems"):
        """the set of the elements of a sequence of scalar terms"""
        sort, _ = self._scalar_sort()
        i = bv("i!as", I)
        at = self.at
        s = SSet.define(name, sort, lambda t_: z3.Exists([i], z3.And(i >= 0, i < self.n, at(i).t == t_)))
        C.assume(s.c <= self.n)
        # the elements are members (instances of the definition, stated explicitly so that the solver need not guess
        # the index witness; for a concatenation: the elements of each part)
        for n_p, at_p in getattr(self, "_parts", [(self.n, at)]):
            if z3.is_int_value(n_p) and n_p.as_long() <= 8:
                for j in range(n_p.as_long()):  # a part of concrete length (a Python list literal): ground instances
                    C.assume(s.a[at_p(z3.IntVal(j)).t])
            else:
                C.assume(z3.ForAll([i], z3.Implies(z3.And(i >= 0, i < n_p), s.a[at_p(i).t])))
        return s

    @staticmethod
    def from_list(lst, kind=list):
        """a concrete Python list of scalar proxies as a symbolic sequence"""
        if not lst or not all(isinstance(e, STerm) for e in lst):
            raise Unsupported("only non-empty lists of scalar proxies can be turned into a symbolic sequence")
        cls = type(lst[0])

        def at(i):
            t_ = lst[-1].t
            for j in range(len(lst) - 2, -1, -1):
                t_ = z3.If(i == j, lst[j].t, t_)
            return cls(t_)

        return SSeq(z3.IntVal(len(lst)), at, kind, "list")

    def __add__(self, o):
        if isinstance(o, (list, tuple)):
            if not o:
                return self
            o = SSeq.from_list(list(o))
        if not isinstance(o, SSeq):
            raise Unsupported("sequence + non-sequence")
        sort, cls = self._scalar_sort()
        n1, a, b = self.n, self.at, o.at
        r = SSeq(self.n + o.n, lambda i: cls(z3.If(i < n1, a(i).t, b(i - n1).t)), self.kind, "concat")
        r._parts = list(getattr(self, "_parts", [(self.n, self.at)])) + list(getattr(o, "_parts", [(o.n, o.at)]))
        return r

    def __iter__(self):
        raise Unsupported("native iteration over a symbolic sequence")


def vc_enumerate(it, start=0):
    if hasattr(it, "_vc_enumerate") and start == 0:
        return it._vc_enumerate()
    return enumerate(it, start)


def vc_range(*a):
    if not any(isinstance(x, Sym) for x in a):
        return range(*a)
    if len(a) != 1:
        raise Unsupported("range(start, stop[, step]) with symbolic bounds")
    n = ti(a[0])
    m = C.fresh("range_len", I)
    C.assume(m == z3.If(n > 0, n, 0))
    return SSeq(m, lambda i: SInt(i), tuple, "range")


def vc_zip(*its):
    """zip of sequences (stops at the shortest): index-wise pairs, iterated in index order"""
    if not any(isinstance(i, Sym) for i in its):
        return zip(*its)
    seqs = []
    for it in its:
        if isinstance(it, SSeq):
            seqs.append((it.n, it.at))
        elif hasattr(it, "_vc_seq"):
            seqs.append(it._vc_seq())
        elif isinstance(it, (list, tuple)):
            seqs.append((z3.IntVal(len(it)), (lambda i, it=it: _concrete_at(it, i))))
        else:
            raise Unsupported(f"zip over {type(it).__name__}")
    n = C.fresh("zip_len", I)
    C.assume(z3.And(*[n <= m for m, _ in seqs]), z3.Or(*[n == m for m, _ in seqs]), n >= 0)
    return SSeq(n, lambda i: tuple(at(i) for _, at in seqs), tuple, "zip")


def _concrete_at(seq, i):
    raise Unsupported("zip of a concrete with a symbolic sequence")


def vc_iter(o):
    if hasattr(o, "_vc_as"):
        return o  # an iterator over a symbolic list: consumed by list() / tuple()
    if isinstance(o, Sym):
        raise Unsupported(f"iter() of {type(o).__name__}")
    return iter(o)


def vc_type(o):
    if hasattr(o, "_vc_type"):
        return o._vc_type()
    if isinstance(o, Sym):
        raise Unsupported(f"type() of {type(o).__name__}")
    return type(o)


def vc_tuple(it=()):
    if hasattr(it, "_vc_as"):
        return it._vc_as(tuple)
    if isinstance(it, SSeq):
        return SSeq(it.n, it.at, tuple, it.name)
    if isinstance(it, SIter) and getattr(it, "_indexed", None) is not None:
        return SSeq(it._indexed[0], it.elem, tuple)
    if isinstance(it, Sym):
        raise Unsupported(f"tuple() of {type(it).__name__}")
    return tuple(it)


setsum = z3.Function("setsum", z3.ArraySort(Id, I), SetSort(Id), I)  # sum over a finite SET of node ids (order free: lemma L3)


def vc_any(it):
    if not hasattr(it, "_vc_iter"):
        r = False
        for e in it:
            if isinstance(e, SBool):
                r = e if r is False else (r | e)
            elif e:
                return True
        return r
    col = it._vc_iter()
    v = bv("v!any", col.sort)
    e = col.elem(v)
    return SBool(z3.Exists([v], z3.And(col.pred(v), tb(vc_bool(e)))))


def vc_all(it):
    if not hasattr(it, "_vc_iter"):
        r = True
        for e in it:
            if isinstance(e, SBool):
                r = e if r is True else (r & e)
            elif not e:
                return False
        return r
    col = it._vc_iter()
    v = bv("v!all", col.sort)
    e = col.elem(v)
    return SBool(z3.ForAll([v], z3.Implies(col.pred(v), tb(vc_bool(e)))))


def vc_sum(it, start=0):
    if not hasattr(it, "_vc_iter"):
        return sum(it, start)
    col = it._vc_iter()
    if col.sort != Id or not col.distinct:
        raise Unsupported("sum over something else than a set of node ids")
    v = bv("v!sum", Id)
    e = col.elem(v)
    return SInt(setsum(z3.Lambda([v], ti(e)), z3.Lambda([v], col.pred(v)))) + start
