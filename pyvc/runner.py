"""pyvc.runner -- verify functions under contract in parallel: every path of every function is explored *and*
discharged in a worker process (z3 in-process, cvc5 / finite-scope refutation as fall-backs).

A "unit" is (module of the contract, name of the contract factory, args): picklable, rebuilt in each worker.
"""
from __future__ import annotations

import hashlib
import importlib
import multiprocessing as mp
import os
import sys
import time
import traceback

import z3

HERE = os.path.dirname(os.path.dirname(os.path.abspath(__file__)))
if HERE not in sys.path:
    sys.path.insert(0, HERE)

from pyvc import solve, sym  # noqa: E402
from pyvc.core import C, ContractBindError, Infeasible, PathEnd, Unsupported  # noqa: E402
from pyvc.engine import FunctionUnderContract  # noqa: E402

_units = {}
_local_cache = {}


def _get_unit(unit):
    if unit not in _units:
        mod, factory, args = unit
        c = getattr(importlib.import_module(mod), factory)(*args)
        fu = FunctionUnderContract(c).build()
        _units[unit] = fu
    return _units[unit]


_MARK_DIR = None  # shared by the workers of one verify_units call: names of obligations already refuted on some path


def _mark_path(name):
    return os.path.join(_MARK_DIR, hashlib.sha256(name.encode()).hexdigest()[:24]) if _MARK_DIR else None


def _already_refuted(name):
    p = _mark_path(name)
    return bool(p) and os.path.exists(p)


def _mark_refuted(name):
    p = _mark_path(name)
    if p:
        try:
            open(p, "w").close()
        except OSError:
            pass


def _solve_one(ob, budget):
    """-> result dict"""
    if _already_refuted(ob.name):
        # the same named obligation already has a counter-model on another path: do not spend the refutation budget
        # again (a change that breaks an invariant fails it on hundreds of paths); only the cheap proof attempt is made
        budget = dict(budget, z3=min(budget["z3"], 2), cvc5=0, finite=0)
    s = z3.Solver()
    s.set("timeout", int(budget["z3"] * 1000))
    for f in ob.pc:
        s.add(f)
    s.add(z3.Not(ob.goal))
    text = s.to_smt2()
    key = hashlib.sha256(text.encode()).hexdigest()
    if key in _local_cache:
        return dict(_local_cache[key], cached=True), text
    t0 = time.time()
    r = s.check()
    dt = time.time() - t0
    if r == z3.unsat:
        res = {"verdict": "discharged", "backend": "z3", "seconds": round(dt, 3)}
        _local_cache[key] = res
        return res, text
    total = dt
    if budget.get("finite", 0) > 0:
        t1 = time.time()
        fr, k, fout = solve.run_finite(text, kmax=budget.get("kmax", 4))
        total += time.time() - t1
        if fr == "sat":
            _mark_refuted(ob.name)
            return {"verdict": "refuted", "backend": f"z3-finite-scope(k={k})", "seconds": round(total, 3), "model": fout[:12000], "scope": k}, text
    if r == z3.unknown and budget.get("cvc5", 0) > 0:
        r2, out2, dt2 = solve.run_cvc5(text, budget["cvc5"])
        total += dt2
        if r2 == "unsat":
            res = {"verdict": "discharged", "backend": "cvc5", "seconds": round(total, 3)}
            _local_cache[key] = res
            return res, text
    if r == z3.sat:
        _mark_refuted(ob.name)
        return {"verdict": "refuted", "backend": "z3", "seconds": round(total, 3), "model": str(s.model())[:8000], "scope": None}, text
    if budget.get("finite", 0) == 0 and budget.get("cvc5", 0) == 0 and _already_refuted(ob.name):
        return {"verdict": "undecided", "backend": "skipped: the same obligation is already refuted on another path", "seconds": round(total, 3)}, text
    return {"verdict": "undecided", "backend": "z3,cvc5,finite-scope", "seconds": round(total, 3)}, text


def _budget_for(ob, budgets):
    for pat, b in budgets.get("special", []):
        if pat in ob.name:
            return b
    return budgets["default"]


def run_path(task):
    unit, case, prefix, budgets = task
    out = {"unit": unit, "case": case, "prefix": prefix, "results": [], "pending": [], "outcome": None, "error": None}
    try:
        fu = _get_unit(unit)
        c = fu.c
        C.fn = fu.name
        C.static = list(sym.val_axioms())
        C.reset(prefix)
        outcome = None
        try:
            C.label(case)
            outcome = c.run(fu.f, case)
        except PathEnd as e:
            outcome = f"cut:{e}"
        except Infeasible:
            outcome = "infeasible"
        if outcome != "infeasible" and any(o.kind != "cover" for o in C.obl):
            C.cover(f"{fu.name}.cover.path_end[{outcome}]")
        out["outcome"] = outcome
        out["path"] = C.path_label()
        out["pending"] = list(C.pending)
        for ob in C.obl:
            b = _budget_for(ob, budgets)
            if ob.kind == "cover":
                res, text = _cover(ob, b)
            else:
                res, text = _solve_one(ob, b)
            rec = {"name": ob.name, "serves": sorted(ob.serves), "kind": ob.kind, "path": ob.path, "fn": ob.fn}
            rec.update(res)
            if res["verdict"] != "discharged" and ob.kind != "cover":
                rec["smt2"] = text
            elif CROSS_SAMPLE and ob.kind != "cover" and "lambda" not in text and int(hashlib.sha256(text.encode()).hexdigest(), 16) % CROSS_SAMPLE == 0:
                rec["smt2_cross"] = text  # thorough tier: a deterministic sample of the discharged obligations is re-checked by cvc5
            out["results"].append(rec)
        out["src_hash"] = fu.src_hash
    except (Unsupported, ContractBindError) as e:
        out["error"] = f"{type(e).__name__}: {e}"
    except TypeError as e:
        tb_last = traceback.extract_tb(e.__traceback__)[-1]
        if "positional argument" in str(e) or "keyword argument" in str(e):
            out["error"] = f"ContractBindError: a signature no longer matches the sidecar contract ({e})"
        elif tb_last.filename.startswith("<") and "rewritten" in tb_last.filename:
            # raised by the code under verification itself, on a proxy that does not model the operation
            out["error"] = f"Unsupported: operation on a proxy that the engine does not model ({e})"
        else:
            out["error"] = f"ENGINE-ERROR {type(e).__name__}: {e}\n{traceback.format_exc()[-1500:]}"
    except Exception as e:  # engine bug: reported as a checker error, never as a verdict
        out["error"] = f"ENGINE-ERROR {type(e).__name__}: {e}\n{traceback.format_exc()[-1500:]}"
    return out


def _cover(ob, budget):
    """a cover (reachability / non-vacuity) obligation: its path condition must be satisfiable (finite scope)"""
    s = z3.Solver()
    for f in ob.pc:
        s.add(f)
    text = s.to_smt2()
    t0 = time.time()
    s.set("timeout", 2000)
    if s.check() == z3.sat:
        return {"verdict": "discharged", "backend": "cover-sat(z3 model)", "seconds": round(time.time() - t0, 3)}, text
    fr, k, fout = solve.run_finite(text, kmax=budget.get("kmax_cover", 3), ints=False, timeout_s=2)  # a cover is a vacuity indicator: cheap attempt only
    dt = time.time() - t0
    if fr == "sat":
        return {"verdict": "discharged", "backend": f"cover-sat(k={k})", "seconds": round(dt, 3)}, text
    return {"verdict": "undecided", "backend": "cover-not-found", "seconds": round(dt, 3)}, text


CROSS_SAMPLE = int(os.environ.get("VERIF_CROSS_SAMPLE", "0"))  # k > 0: keep the SMT text of every k-th discharged obligation
MAX_PATHS = int(os.environ.get("VERIF_MAX_PATHS", "1500"))
TASK_TIMEOUT_S = int(os.environ.get("VERIF_TASK_TIMEOUT_S", "400"))  # one path: exploration + all its obligations
TASK_RETRY_AFTER_S = int(os.environ.get("VERIF_TASK_RETRY_AFTER_S", "120"))  # a path task that is silent for this long is submitted once more (normal: seconds)
UNIT_BUDGET_S = int(os.environ.get("VERIF_UNIT_BUDGET_S", "900"))  # wall-clock cap of one verify_units call (normal: 1-2 min)
DEFAULT_BUDGETS = {"default": {"z3": 20, "cvc5": 20, "finite": 1, "kmax": 4}, "special": []}


def verify_units(units, budgets=None, workers=None, verbose=False):
    """-> {unit: {"paths": [...], "results": [...], "error": str|None, "src_hash": ..}}"""
    budgets = budgets or DEFAULT_BUDGETS
    workers = workers or solve.WORKERS
    report = {u: {"paths": [], "results": [], "error": None, "src_hash": None, "seconds": 0.0} for u in units}
    t0 = time.time()
    ctx = mp.get_context("fork")
    global _MARK_DIR
    import shutil
    import tempfile

    os.makedirs(solve.CACHE_DIR, exist_ok=True)
    _MARK_DIR = tempfile.mkdtemp(prefix="refuted_", dir=solve.CACHE_DIR)
    try:
        return _verify_units(units, budgets, workers, report, t0, ctx)
    finally:
        shutil.rmtree(_MARK_DIR, ignore_errors=True)
        _MARK_DIR = None


def _verify_units(units, budgets, workers, report, t0, ctx):
    with ctx.Pool(workers, maxtasksperchild=200) as pool:
        pending = []
        inflight = 0

        def submit(task):
            nonlocal inflight
            inflight += 1
            ar = pool.apply_async(run_path, (task,))
            ar._vc_unit = task[0]
            ar._vc_t0 = time.time()
            ar._vc_task, ar._vc_try = task, 1
            pending.append(ar)

        for u in units:
            try:
                mod, factory, args = u
                c = getattr(importlib.import_module(mod), factory)(*args)
                cases = list(c.cases()) if hasattr(c, "cases") else ["main"]
            except Exception as e:
                report[u]["error"] = f"{type(e).__name__}: {e}"
                continue
            for case in cases:
                submit((u, case, [], budgets))
        while pending:
            still = []
            progressed = False
            for ar in pending:
                if getattr(ar, "_vc_unit", None) is not None and report[ar._vc_unit]["error"] and not ar.ready():
                    continue  # the unit is already undecided: its remaining paths are abandoned (killed with the pool)
                limit = TASK_RETRY_AFTER_S if getattr(ar, "_vc_try", 1) == 1 else TASK_TIMEOUT_S
                if not ar.ready() and time.time() - getattr(ar, "_vc_t0", t0) > limit and getattr(ar, "_vc_unit", None) is not None:
                    # a path task that never comes back (a worker process died - the pool recycles its workers -, a solver
                    # call ignored its timeout): it is submitted once more; if the second attempt does not come back either the
                    # function is undecided, and the check goes on
                    if getattr(ar, "_vc_try", 1) == 1 and getattr(ar, "_vc_task", None) is not None:
                        ar2 = pool.apply_async(run_path, (ar._vc_task,))
                        ar2._vc_unit, ar2._vc_t0, ar2._vc_task, ar2._vc_try = ar._vc_unit, time.time(), ar._vc_task, 2
                        still.append(ar2)
                        continue
                    report[ar._vc_unit]["error"] = report[ar._vc_unit]["error"] or f"Unsupported: a path task did not return within {TASK_TIMEOUT_S} s, twice (worker lost or solver stuck)"
                    continue
                if ar.ready():
                    progressed = True
                    out = ar.get()
                    rep = report[out["unit"]]
                    if out["error"]:
                        rep["error"] = rep["error"] or out["error"]
                        continue
                    if rep["error"]:
                        continue
                    rep["src_hash"] = out.get("src_hash")
                    rep["paths"].append((out["outcome"], out["path"], len(out["results"])))
                    rep["results"].extend(out["results"])
                    if len(rep["paths"]) > MAX_PATHS:
                        rep["error"] = f"Unsupported: path explosion (> {MAX_PATHS} paths)"
                        continue
                    if time.time() - t0 > UNIT_BUDGET_S:
                        rep["error"] = f"Unsupported: verification time budget of {UNIT_BUDGET_S} s exceeded ({len(rep['paths'])} paths explored)"
                        continue
                    for pf in out["pending"]:
                        task2 = (out["unit"], out["case"], pf, budgets)
                        ar2 = pool.apply_async(run_path, (task2,))
                        ar2._vc_unit = out["unit"]
                        ar2._vc_t0 = time.time()
                        ar2._vc_task, ar2._vc_try = task2, 1
                        still.append(ar2)
                else:
                    still.append(ar)
            pending = still
            if not progressed:
                time.sleep(0.02)
    for u in units:
        report[u]["seconds"] = round(time.time() - t0, 2)
    return report
