"""pyvc.core -- path exploration context: path condition, forking by decision replay, obligations.

The *real* function body (extracted from /repo and mechanically rewritten, see rewrite.py) is executed by CPython
on symbolic proxy objects (sym.py).  Whenever Python needs a concrete truth value of a symbolic boolean
(`if`, `while`, `and`, `or`, `not`, `assert`) `Ctx.fork` decides it: the decisions already taken on this path are
replayed from `prefix`, beyond the prefix `True` is taken and the alternative is queued.  A path ends at `return`,
at an escaping exception, or at a loop back edge (PathEnd).
"""
from __future__ import annotations

import z3


class Unsupported(Exception):
    """A construct the engine does not model.  Never a silent approximation: the function is then *undecided*."""


class UnsupportedAttribute(Unsupported, AttributeError):
    """an attribute of a proxy that the engine does not model (an AttributeError for hasattr / getattr-with-default,
    an Unsupported for the driver: the function is then undecided, not a checker crash)"""


class PathEnd(Exception):
    """The current path ended at a cut (loop back edge)."""


class Infeasible(Exception):
    """The current path is infeasible (its path condition was found contradictory)."""


class ContractBindError(Exception):
    """The sidecar contract cannot bind to the current source (function / loop / variable not found)."""


class Obligation:
    __slots__ = ("name", "serves", "pc", "goal", "fn", "path", "kind", "note")

    def __init__(self, name, serves, pc, goal, fn, path, kind, note=""):
        self.name, self.serves, self.pc, self.goal = name, frozenset(serves), pc, goal
        self.fn, self.path, self.kind, self.note = fn, path, kind, note


class Ctx:
    """One exploration context (a global singleton `C` is used by the proxies)."""

    def __init__(self):
        self.fn = "?"
        self.static = []  # axioms valid on all paths of the current function (sort axioms, lemma instances)
        self.prune = True
        self.reset([])
        self.all_obligations = []
        self.paths = []

    # ---- per path ---------------------------------------------------------------------------------------------
    def reset(self, prefix):
        self.pc = []
        self.prefix = list(prefix)
        self.dec = []
        self.pending = []
        self.obl = []
        self.trace = []
        self.counter = 0
        self.binder = 0  # >0 while evaluating under a quantifier binder (comprehension / key function)
        self.binder_frames = []  # [(bound var, guard, [deferred checks])]
        self.mutated = {}  # id -> proxy mutated since the last loop head / function entry (frame checks)
        self.loop_states = {}
        self.ghost = {}
        self.labels = []
        self._solver = None
        self.serial = 0

    def next_serial(self):
        self.serial += 1
        return self.serial

    def fresh(self, name, sort):
        self.counter += 1
        return z3.Const(f"{name}!{self.counter}", sort)

    def freshf(self, name, *sig):
        self.counter += 1
        return z3.Function(f"{name}!{self.counter}", *sig)

    def assume(self, *formulas):
        for f in formulas:
            if f is None:
                continue
            if isinstance(f, (list, tuple)):
                self.assume(*f)
                continue
            if z3.is_true(f):
                continue
            if self.binder and any(_mentions(f, fr[0]) for fr in self.binder_frames):
                continue  # a fact about the bound variable (re-statement of a deferred check): not a path fact
            self.pc.append(f)
            if self._solver is not None:
                self._solver.add(f)

    def check(self, goal, name, serves=(), kind="assert", note=""):
        """Record the proof obligation  pc => goal  (conjunctive goals are split by the callers)."""
        if isinstance(goal, bool):
            goal = z3.BoolVal(goal)
        if self.binder:
            # deferred: becomes  forall v. guard(v) => goal  when the binder is left
            self.binder_frames[-1][2].append((goal, name, serves, kind, note))
            return
        if len(self.dec) < len(self.prefix):
            return  # still replaying the decisions of the parent path: this obligation was emitted there
        self.obl.append(
            Obligation(name, serves, list(self.static) + list(self.pc), goal, self.fn, self.path_label(), kind, note)
        )

    def cover(self, name):
        """non-vacuity: the current path condition must be satisfiable (decided in a finite scope)"""
        if len(self.dec) < len(self.prefix) or self.binder:
            return
        self.obl.append(Obligation(name, (), list(self.static) + list(self.pc), z3.BoolVal(False), self.fn, self.path_label(), "cover"))

    def check_all(self, clauses, prefix="", serves=(), kind="assert"):
        for cl in clauses:
            name, goal = cl[0], cl[1]
            sv = cl[2] if len(cl) > 2 else serves
            self.check(goal, f"{prefix}{name}", sv, kind)

    def label(self, text):
        self.labels.append(text)

    def path_label(self):
        return "/".join(self.labels + ["".join("T" if d else "F" for d in self.dec)])

    # ---- forking ----------------------------------------------------------------------------------------------
    def _quick(self, extra):
        """Cheap feasibility test of pc + extra; only a definite `unsat` prunes."""
        if not self.prune:
            return True
        if self._solver is None:
            self._solver = z3.Solver()
            self._solver.set("timeout", 250)
            for f in self.static:
                self._solver.add(f)
            for f in self.pc:
                self._solver.add(f)
        self._solver.push()
        self._solver.add(extra)
        r = self._solver.check()
        self._solver.pop()
        return r != z3.unsat

    def choose(self, why=""):
        """a free nondeterministic choice (both outcomes always feasible): no solver call"""
        i = len(self.dec)
        if i < len(self.prefix):
            d = self.prefix[i]
        else:
            d = True
            self.pending.append(self.dec + [False])
        self.dec.append(d)
        self.trace.append((why, d))
        return d

    def fork(self, cond, why="", else_assume=None):
        """Decide `cond` on this path.  `else_assume` (optional) replaces `Not(cond)` as the fact recorded on the
        false branch (it must imply Not(cond) for the instance at hand; used by the for-loop exit rule)."""
        if self.binder:
            raise Unsupported(f"truth value of a symbolic condition needed under a binder ({why})")
        cond = z3.simplify(cond)
        if z3.is_true(cond):
            return True
        if z3.is_false(cond):
            return False
        i = len(self.dec)
        if i < len(self.prefix):
            d = self.prefix[i]
        else:
            t_ok = self._quick(cond)
            f_ok = self._quick(z3.Not(cond))
            if t_ok and f_ok:
                d = True
                self.pending.append(self.dec + [False])
            elif t_ok:
                d = True
            elif f_ok:
                d = False
            else:
                raise Infeasible(why)
        self.dec.append(d)
        self.trace.append((why, d))
        self.assume(cond if d else (z3.Not(cond) if else_assume is None else else_assume))
        return d


def _mentions(f, v):
    seen = set()
    stack = [f]
    while stack:
        t = stack.pop()
        if t.get_id() in seen:
            continue
        seen.add(t.get_id())
        if z3.eq(t, v):
            return True
        if z3.is_quantifier(t):
            stack.append(t.body())
        else:
            stack.extend(t.children())
    return False


C = Ctx()


def explore(fn_name, run_one, static=()):
    """Run `run_one()` (which executes the function under verification once, on fresh symbolic inputs) for every
    decision prefix until no alternative is pending.  Returns (paths, obligations)."""
    C.fn = fn_name
    C.static = list(static)
    work = [[]]
    paths, obligations = [], []
    n = 0
    while work:
        prefix = work.pop()
        C.reset(prefix)
        n += 1
        if n > 20000:
            raise Unsupported(f"path explosion in {fn_name}")
        outcome = None
        try:
            outcome = run_one()
        except PathEnd as e:
            outcome = f"cut:{e}"
        except Infeasible:
            outcome = "infeasible"
        paths.append((outcome, C.path_label(), len(C.obl)))
        obligations += C.obl
        work += C.pending
    return paths, obligations
