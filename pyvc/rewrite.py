"""pyvc.rewrite -- locate a function in /repo's working tree and apply the fixed, purely syntactic rewrite that
lets CPython execute its *real body* on symbolic proxies.  The complete list of what is changed (DESIGN.md 2.1):

 R1  `async def` -> `def`, `await e` -> `__vc.await_(e)`
 R2  `while c: B` (only when the sidecar contract has a loop spec for that ordinal) -> loop cut
 R3  `for x in S: B` (same condition) -> loop cut when S is symbolic at run time, the untouched loop otherwise
 R5  `a in b`, `a not in b`, `a is b`, `a is not b`, `not e`, `a and b`, `a or b` -> helper calls (same short-circuit
     order; on concrete operands the helpers compute exactly what Python computes)
 R6  single-generator comprehensions / generator expressions -> `__vc.comp(kind, iterable, lambda, lambda)`
 R7  `*args` parameter -> ordinary parameter `args`; call `f(a, *b)` -> `__vc.apply(f, (a,), b)`
 R8  `super()` -> `__vc.super_(self)`
 R9  annotations, decorators, docstring removed
 R11 `"<literal>".join(e)` -> `__vc.str_join("<literal>", e)` (same result on concrete operands)
Builtins (len, max, set, list, isinstance, bool ...) and imported names (copy, wait, asyncio, logger ...) are *not*
rewritten: they are looked up in the namespace the function is compiled in, where the engine binds them.
"""
from __future__ import annotations

import ast
import copy as _copy
import hashlib

from .core import ContractBindError, Unsupported


def find_function(tree: ast.AST, qualname: str):
    parts = qualname.split(".")
    node = tree
    for p in parts:
        found = None
        for ch in ast.walk(node) if node is tree else ast.iter_child_nodes(node):
            if isinstance(ch, (ast.FunctionDef, ast.AsyncFunctionDef, ast.ClassDef)) and ch.name == p:
                if node is tree and not _is_toplevel(tree, ch):
                    continue
                decos = [d.attr if isinstance(d, ast.Attribute) else getattr(d, "id", "") for d in getattr(ch, "decorator_list", [])]
                if found is not None and any(d in ("setter", "deleter") for d in decos):
                    continue  # a property's setter / deleter shares the getter's name: the contract is about the getter
                if "overload" in decos:
                    found = found or ch
                    continue
                found = ch  # no break: the LAST real definition of a name is the one Python binds (@overload stubs come first)
        if found is None and not isinstance(node, ast.Module):
            # nested function inside a function body (e.g. DAG.compose._add_missing_deps)
            for ch in ast.walk(node):
                if isinstance(ch, (ast.FunctionDef, ast.AsyncFunctionDef)) and ch.name == p and ch is not node:
                    found = ch
                    break
        if found is None:
            raise ContractBindError(f"function {qualname} not found (at '{p}')")
        node = found
    if not isinstance(node, (ast.FunctionDef, ast.AsyncFunctionDef)):
        raise ContractBindError(f"{qualname} is not a function")
    return node


def _is_toplevel(tree, node):
    return any(node is ch for ch in tree.body)


def load_function(path: str, qualname: str):
    src = open(path).read()
    tree = ast.parse(src)
    fn = find_function(tree, qualname)
    seg = ast.get_source_segment(src, fn) or ""
    return fn, hashlib.sha256(seg.encode()).hexdigest()[:16], seg


def loops_of(fn):
    """While/For nodes of the function in source (pre-)order, nested function bodies excluded."""
    out = []

    def rec(n):
        for ch in ast.iter_child_nodes(n):
            if isinstance(ch, (ast.FunctionDef, ast.AsyncFunctionDef, ast.Lambda, ast.ClassDef)):
                continue
            if isinstance(ch, (ast.While, ast.For, ast.AsyncFor)):
                out.append(ch)
            rec(ch)

    rec(fn)
    return out


def _assigned_names(nodes):
    names = set()

    class V(ast.NodeVisitor):
        def visit_Name(self, n):
            if isinstance(n.ctx, (ast.Store, ast.Del)):
                names.add(n.id)

        def visit_FunctionDef(self, n):
            names.add(n.name)

        visit_AsyncFunctionDef = visit_FunctionDef

        def visit_Lambda(self, n):
            pass

        def visit_ListComp(self, n):
            pass

        visit_SetComp = visit_DictComp = visit_GeneratorExp = visit_ListComp

    for n in nodes:
        V().visit(n)
    return names


def _call(name, *args):
    return ast.Call(func=ast.Attribute(value=ast.Name("__vc", ast.Load()), attr=name, ctx=ast.Load()), args=list(args), keywords=[])


def _locals():
    return ast.Call(func=ast.Name("locals", ast.Load()), args=[], keywords=[])


def _lam(body, argnames=()):
    return ast.Lambda(
        args=ast.arguments(posonlyargs=[], args=[ast.arg(a) for a in argnames], kwonlyargs=[], kw_defaults=[], defaults=[]),
        body=body,
    )


class _Expr(ast.NodeTransformer):
    """expression-level rules R1 R5 R6 R7 R8"""

    def __init__(self, self_name):
        self.self_name = self_name

    def visit_Await(self, n):
        self.generic_visit(n)
        return _call("await_", n.value)

    def visit_UnaryOp(self, n):
        self.generic_visit(n)
        if isinstance(n.op, ast.Not):
            return _call("not_", n.operand)
        return n

    def visit_BoolOp(self, n):
        self.generic_visit(n)
        return _call("and_" if isinstance(n.op, ast.And) else "or_", *[_lam(v) for v in n.values])

    def visit_Compare(self, n):
        self.generic_visit(n)
        if len(n.ops) == 1:
            op, a, b = n.ops[0], n.left, n.comparators[0]
            if isinstance(op, ast.In):
                return _call("contains", b, a)
            if isinstance(op, ast.NotIn):
                return _call("not_", _call("contains", b, a))
            if isinstance(op, ast.Is):
                return _call("is_", a, b)
            if isinstance(op, ast.IsNot):
                return _call("is_not", a, b)
        elif any(isinstance(o, (ast.In, ast.NotIn, ast.Is, ast.IsNot)) for o in n.ops):
            raise Unsupported("chained comparison with in/is")
        return n

    def _comp(self, n, kind, elt):
        if len(n.generators) != 1 or n.generators[0].is_async:
            return None
        g = n.generators[0]
        tgt = g.target
        if isinstance(tgt, ast.Name):
            mk = lambda body: _lam(body, [tgt.id])  # noqa: E731
        elif isinstance(tgt, ast.Tuple) and all(isinstance(e, ast.Name) for e in tgt.elts):
            names = [e.id for e in tgt.elts]
            mk = lambda body: _lam(  # noqa: E731
                ast.Call(func=_lam(body, names), args=[ast.Starred(ast.Name("__vc_t", ast.Load()), ast.Load())], keywords=[]),
                ["__vc_t"],
            )
        else:
            return None
        cond = None
        if g.ifs:
            c = g.ifs[0] if len(g.ifs) == 1 else _call("and_", *[_lam(i) for i in g.ifs])
            cond = mk(c)
        args = [ast.Constant(kind), g.iter, mk(elt)] + ([cond] if cond is not None else [])
        return _call("comp", *args)

    def visit_ListComp(self, n):
        self.generic_visit(n)
        return self._comp(n, "list", n.elt) or n

    def visit_SetComp(self, n):
        self.generic_visit(n)
        return self._comp(n, "set", n.elt) or n

    def visit_GeneratorExp(self, n):
        self.generic_visit(n)
        return self._comp(n, "gen", n.elt) or n

    def visit_DictComp(self, n):
        self.generic_visit(n)
        return self._comp(n, "dict", ast.Tuple([n.key, n.value], ast.Load())) or n

    def visit_Call(self, n):
        self.generic_visit(n)
        if isinstance(n.func, ast.Name) and n.func.id == "super" and not n.args:
            return _call("super_", ast.Name(self.self_name or "self", ast.Load()))
        # R11: "<sep>".join(e)  ->  __vc.str_join("<sep>", e)   (a method of a str LITERAL cannot be intercepted otherwise;
        # on concrete operands the helper calls the real str.join)
        if (isinstance(n.func, ast.Attribute) and n.func.attr == "join" and isinstance(n.func.value, ast.Constant) and isinstance(n.func.value.value, str)
                and len(n.args) == 1 and not n.keywords and not isinstance(n.args[0], ast.Starred)):
            return _call("str_join", n.func.value, n.args[0])
        if any(isinstance(a, ast.Starred) for a in n.args) or any(k.arg is None for k in n.keywords):
            pos, star = [], None
            for a in n.args:
                if isinstance(a, ast.Starred):
                    if star is not None:
                        return n
                    star = a.value
                else:
                    if star is not None:
                        return n
                    pos.append(a)
            kws = [k for k in n.keywords if k.arg is not None]
            dstar = [k.value for k in n.keywords if k.arg is None]
            if len(dstar) > 1:
                return n
            return ast.Call(
                func=ast.Attribute(ast.Name("__vc", ast.Load()), "apply", ast.Load()),
                args=[n.func, ast.Tuple(pos, ast.Load()), star or ast.Constant(None), dstar[0] if dstar else ast.Constant(None)],
                keywords=kws,
            )
        return n

    def visit_Lambda(self, n):
        self.generic_visit(n)
        return n


class _Stmt(ast.NodeTransformer):
    """statement-level rules R2 R3 (loop cuts) -- applied after _Expr"""

    def __init__(self, loop_ids, specs, pre_names, nested_stubs=()):
        self.loop_ids, self.specs, self.pre_names = loop_ids, specs, pre_names
        self.nested_stubs = set(nested_stubs)
        self.cur = []  # stack of loop ordinals being cut

    def visit_FunctionDef(self, n):
        # nested function: its own loops are not cut, and `continue` inside refers to its own loops.  A nested function
        # that has its OWN sidecar contract is replaced by that contract's stub (modular reasoning, as for any callee)
        if n.name in self.nested_stubs:
            return ast.Assign(targets=[ast.Name(n.name, ast.Store())], value=_call("nested_stub", ast.Constant(n.name), _locals()))
        return n

    visit_AsyncFunctionDef = visit_FunctionDef

    def _cut_body(self, k, body):
        self.cur.append(k)
        new = []
        for st in body:
            r = self.visit(st)
            new.extend(r if isinstance(r, list) else [r])
        self.cur.pop()
        return new

    def visit_Continue(self, n):
        if self.cur and self.cur[-1] is not None:
            return ast.Expr(_call("loop_back", ast.Constant(self.cur[-1]), _locals()))
        return n

    def visit_Break(self, n):
        if self.cur and self.cur[-1] is not None:
            raise Unsupported("break inside a cut loop")
        return n

    def _native(self, n):
        self.cur.append(None)
        self.generic_visit(n)
        self.cur.pop()
        if isinstance(n, ast.While):
            # a loop without a loop contract runs natively: fine for a concrete condition; a SYMBOLIC condition would
            # unroll without bound -> the contract cannot bind to this loop (the function is then undecided)
            n.test = _call("native_while_test", ast.Constant(getattr(n, "_vc_k", -1)), n.test)
        return n

    def _carried_assign(self, k, spec):
        carried = list(spec.carried)
        head = _call("loop_head", ast.Constant(k), _locals())
        if not carried:
            return [ast.Expr(head)]
        return [ast.Assign(targets=[ast.Tuple([ast.Name(c, ast.Store()) for c in carried], ast.Store())], value=head)]

    def _check_bind(self, k, spec, n, extra=()):
        assigned = _assigned_names(n.body) - set(extra)
        before = {nm for nm, ln in self.pre_names.items() if ln < n.lineno}
        live = assigned & before
        missing = live - set(spec.carried) - set(getattr(spec, "local_ok", ()))
        if missing:
            raise ContractBindError(f"loop {k}: variables {sorted(missing)} are re-assigned in the loop but not covered by the loop contract")

    def visit_While(self, n):
        k = n._vc_k
        spec = self.specs.get(k)
        if spec is None:
            return self._native(n)
        if n.orelse:
            raise Unsupported("while/else")
        self._check_bind(k, spec, n)
        body = self._cut_body(k, n.body)
        body.append(ast.Expr(_call("loop_back", ast.Constant(k), _locals())))
        return self._carried_assign(k, spec) + [ast.If(test=n.test, body=body, orelse=[])]

    def visit_For(self, n):
        k = n._vc_k
        spec = self.specs.get(k)
        if spec is None:
            return self._native(n)
        if n.orelse:
            raise Unsupported("for/else")
        tnames = _assigned_names([n.target])
        self._check_bind(k, spec, n, extra=tnames)
        native = _copy.deepcopy(n)
        self.cur.append(None)
        native = self.generic_visit(native)
        self.cur.pop()
        body = self._cut_body(k, n.body)
        body.append(ast.Expr(_call("loop_back", ast.Constant(k), _locals())))
        pick = ast.Assign(targets=[n.target], value=_call("for_pick", ast.Constant(k)))
        cut = self._carried_assign(k, spec) + [ast.If(test=_call("for_has_next", ast.Constant(k)), body=[pick] + body, orelse=[])]
        begin = ast.Assign(targets=[ast.Name("__vc_it", ast.Store())], value=_call("for_begin", ast.Constant(k), n.iter, _locals()))
        native.iter = ast.Name("__vc_it", ast.Load())
        test = _call("is_not", ast.Name("__vc_it", ast.Load()), ast.Constant(None))
        return [begin, ast.If(test=test, body=[native], orelse=cut)]


def rewrite_function(fn, loop_specs=None, rename=None, nested_stubs=()):
    """Returns (source text of the rewritten function, number of loops).  `fn` is not modified."""
    loop_specs = loop_specs or {}
    fn = _copy.deepcopy(fn)
    loops = loops_of(fn)
    for k in loop_specs:
        if k >= len(loops):
            raise ContractBindError(f"{fn.name}: loop ordinal {k} not found ({len(loops)} loops in the source)")
    for i, n in enumerate(loops):
        n._vc_k = i
    loop_ids = None
    # R9
    fn.decorator_list = []
    fn.returns = None
    a = fn.args
    for arg in a.posonlyargs + a.args + a.kwonlyargs + ([a.vararg] if a.vararg else []) + ([a.kwarg] if a.kwarg else []):
        arg.annotation = None
    if fn.body and isinstance(fn.body[0], ast.Expr) and isinstance(getattr(fn.body[0], "value", None), ast.Constant) and isinstance(fn.body[0].value.value, str):
        fn.body = fn.body[1:] or [ast.Pass()]
    # R7 (signature): *args / **kwargs become ordinary parameters
    if a.vararg:
        a.args.append(ast.arg(a.vararg.arg))
        if len(a.defaults):
            a.defaults.append(ast.Constant(()))
        a.vararg = None
        if a.kwonlyargs:
            # keyword-only parameters stay keyword-only
            pass
    if a.kwarg:
        a.kwonlyargs.append(ast.arg(a.kwarg.arg))
        a.kw_defaults.append(ast.Constant(None))
        a.kwarg = None
    self_name = a.args[0].arg if a.args else None

    class Ann(ast.NodeTransformer):
        def visit_AnnAssign(self, n):
            self.generic_visit(n)
            if n.value is None:
                return ast.Pass()
            return ast.Assign(targets=[n.target], value=n.value)

        def visit_FunctionDef(self, n):
            self.generic_visit(n)
            n.returns = None
            n.decorator_list = n.decorator_list
            for arg in n.args.posonlyargs + n.args.args + n.args.kwonlyargs:
                arg.annotation = None
            if n.args.vararg:
                n.args.vararg.annotation = None
            if n.args.kwarg:
                n.args.kwarg.annotation = None
            return n

        def visit_AsyncFunctionDef(self, n):
            n = self.visit_FunctionDef(n)
            return ast.FunctionDef(name=n.name, args=n.args, body=n.body, decorator_list=n.decorator_list, returns=None, type_comment=None)

    orig_body = list(fn.body)
    inner_body = [Ann().visit(st) for st in fn.body]
    fn.body = inner_body
    ex = _Expr(self_name)
    fn.body = [ex.visit(st) for st in fn.body]
    fn.args.defaults = [ex.visit(d) for d in fn.args.defaults]
    pre_names = {x.arg: 0 for x in a.posonlyargs + a.args + a.kwonlyargs}
    for nd in ast.walk(ast.Module(orig_body, [])):
        if isinstance(nd, ast.Name) and isinstance(nd.ctx, ast.Store):
            pre_names[nd.id] = min(pre_names.get(nd.id, 10**9), nd.lineno)
    st = _Stmt(loop_ids, loop_specs, pre_names, nested_stubs)
    new_body = []
    for s in fn.body:
        r = st.visit(s)
        new_body.extend(r if isinstance(r, list) else [r])
    out = ast.FunctionDef(name=rename or fn.name, args=fn.args, body=new_body, decorator_list=[], returns=None, type_comment=None)
    mod = ast.fix_missing_locations(ast.Module([out], []))
    return ast.unparse(mod), len(loops)
