"""pyvc.engine -- run-time support of the rewritten code (loop cuts, await, apply, super) and the driver that
verifies one real function against its sidecar contract.
"""
from __future__ import annotations

import importlib
import os
import sys
import time

import z3

from . import sym
from .core import C, ContractBindError, Infeasible, PathEnd, Unsupported, explore
from .rewrite import load_function, rewrite_function
from .sym import SBool, SIter, Sym, bv, wrap

REPO = os.environ.get("VERIF_REPO", "/repo")


class SAwaitable(Sym):
    """What a contract stub of an `async def` returns; `await` runs it (single scheduler thread, DESIGN 3.4)."""

    def __init__(self, run, **attrs):
        self.run = run
        self.__dict__.update(attrs)


class LoopSpec:
    """Sidecar contract of one loop (keyed by function + loop ordinal)."""

    carried = ()  # local names re-bound in the loop and live across iterations
    local_ok = ()  # names assigned in the loop and before it, but dead at the loop head

    def modifies(self, env):  # proxies mutated in place by the loop body
        return []

    def rebind(self, env):  # fresh proxies for the carried names
        return {}

    def ghost_havoc(self, env, st):
        pass

    def inv(self, env, st):  # [(name, formula, serves)]
        return []

    def variant(self, env, st):  # z3 Int term or None (None: for-loop over a fixed collection)
        return None

    variant_serves = ("C09",)


class LoopState:
    def __init__(self):
        self.coll = None
        self.ordered = False
        self.seen = None
        self.cur = None
        self.var0 = None
        self.mod_ids = set()
        self.serial0 = 0
        self.is_for = False
        self.nseen = None  # ghost: number of elements already iterated (for-loops)

    def seen_has(self, t):
        return self.seen[t]


class VC:
    """the `__vc` object of the rewritten code"""

    def __init__(self, fn_name, specs):
        self.fn_name, self.specs = fn_name, specs
        self.len = sym.vc_len
        self.contains = sym.vc_contains
        self.not_ = sym.vc_not
        self.and_ = sym.vc_and
        self.or_ = sym.vc_or
        self.is_ = sym.vc_is
        self.is_not = sym.vc_is_not

    # -- expressions
    def comp(self, kind, iterable, elt, cond=None):
        if kind == "dict":
            return self._dictcomp(iterable, elt, cond)
        r = sym.comp(kind, iterable, elt, cond)
        if kind == "gen" and isinstance(r, list):
            return iter(r)
        return r

    def _dictcomp(self, iterable, elt, cond):
        if not hasattr(iterable, "_vc_iter"):
            out = {}
            for x in iterable:
                if cond is None or cond(x):
                    k, v = elt(x)
                    out[k] = v
            return out
        if C.ghost.get("dictcomp") is not None:
            return C.ghost["dictcomp"](iterable, elt, cond)
        col = iterable._vc_iter()
        v = bv("v!dc", col.sort)
        xx = col.elem(v)
        with sym.Binder(v, col.pred(v)):
            c = cond(xx) if cond is not None else True
        ct = sym.tb(c)
        with sym.Binder(v, z3.And(col.pred(v), ct)):
            k, val = elt(xx)
        if not (isinstance(k, sym.STerm) or isinstance(k, sym.SInt)) or not z3.eq(k.t, v):
            raise Unsupported("dict comprehension whose key is not the iteration variable")
        vt = sym.term(val, sym.Val) if not isinstance(val, (sym.SInt, sym.SBool)) else val.t
        m = sym.SMap(col.sort, vt.sort(), z3.Lambda([v], z3.And(col.pred(v), ct)), z3.Lambda([v], vt), name="dictcomp")
        return m

    def await_(self, x):
        if isinstance(x, SAwaitable):
            return x.run()
        raise Unsupported(f"await of {type(x).__name__}")

    def apply(self, f, pos, star, dstar, **kws):
        if dstar is not None:
            if isinstance(dstar, Sym):
                kws["__vc_dstar"] = dstar
            else:
                kws.update(dstar)
        if star is None:
            return f(*pos, **kws)
        if isinstance(star, Sym):
            from . import lib

            if f is lib.vc_chain and not pos:
                return lib.vc_chain_star(star)
            if getattr(f, "__name__", "") == "union" and isinstance(getattr(f, "__self__", None), sym.SSet) and not pos:
                return lib.union_all(f.__self__, star)
        if getattr(f, "_vc_star", False):
            return f(*pos, star, **kws)
        if isinstance(star, Sym):
            raise Unsupported(f"symbolic *args passed to {getattr(f, '__name__', f)}")
        return f(*pos, *star, **kws)

    def super_(self, obj):
        if hasattr(obj, "_vc_super"):
            return obj._vc_super()
        raise Unsupported(f"super() of {type(obj).__name__}")

    def nested_stub(self, name, env):
        """the contract stub of a nested function that is under its own contract (bound per path by the contract)"""
        stubs = C.ghost.get("nested_stubs") or {}
        if name not in stubs:
            raise ContractBindError(f"no stub bound for the nested function {name}")
        return stubs[name](dict(env))

    def str_join(self, sep, parts):
        if hasattr(parts, "_vc_join"):
            return parts._vc_join(sep)
        return sep.join(parts)

    def native_while_test(self, k, value):
        if isinstance(value, Sym):
            raise ContractBindError(f"loop {k} of {self.fn_name} has a symbolic condition but no loop contract")
        return value

    # -- loops
    def _st(self, k):
        return C.loop_states.setdefault(k, LoopState())

    def for_begin(self, k, iterable, env):
        if not hasattr(iterable, "_vc_iter"):
            return iterable
        st = LoopState()
        C.loop_states[k] = st
        st.is_for = True
        st.coll = iterable._vc_iter()
        # a list / tuple / range / enumerate is iterated in index order (CPython's sequence iterator); sets, dicts and
        # graph node views in an arbitrary order
        st.ordered = getattr(st.coll, "_indexed", None) is not None and st.coll.sort == sym.I and st.coll.count is not None
        return None

    def loop_head(self, k, env):
        spec = self.specs[k]
        st = self._st(k)
        env = dict(env)
        if st.is_for:
            st.seen = z3.K(st.coll.sort, False)
            st.nseen = z3.IntVal(0)
            if getattr(st, "ordered", False):
                st.seen = self._prefix(st.nseen)
        for cl in spec.inv(env, st):
            C.check(cl[1], f"{self.fn_name}.loop{k}.entry.{cl[0]}", cl[2] if len(cl) > 2 else (), kind="inv")
        mods = list(spec.modifies(env))
        st.serial0 = C.next_serial()
        for p in mods:
            p.havoc()
        new = dict(spec.rebind(env))
        missing = set(spec.carried) - set(new)
        if missing:
            raise ContractBindError(f"loop {k}: rebind() does not provide {sorted(missing)}")
        st.mod_ids = {id(p) for p in mods} | {id(q) for p in mods for q in (p._vc_parts() if hasattr(p, "_vc_parts") else ())}
        spec.ghost_havoc(env, st)
        env.update(new)
        if st.is_for and getattr(st, "ordered", False):
            # sequence iterator: after j iterations exactly the indices 0 .. j-1 have been visited
            st.nseen = C.fresh("nseen", sym.I)
            C.assume(st.nseen >= 0, st.nseen <= st.coll.count)
            st.seen = self._prefix(st.nseen)
        elif st.is_for:
            st.seen = C.fresh("seen", sym.SetSort(st.coll.sort))
            v = bv("v!l", st.coll.sort)
            C.assume(z3.ForAll([v], z3.Implies(st.seen[v], st.coll.pred(v))))
            # loop rule (trusted): the ghost counter of iterations done; over n distinct elements: 0 <= nseen <= n
            st.nseen = C.fresh("nseen", sym.I)
            C.assume(st.nseen >= 0)
            if st.coll.count is not None and st.coll.distinct:
                C.assume(st.nseen <= st.coll.count)
        for cl in spec.inv(env, st):
            C.assume(cl[1])
        C.cover(f"{self.fn_name}.cover.loop{k}.invariant_satisfiable")
        st.var0 = spec.variant(env, st)
        st.local_ok_ids = {nm: id(env[nm]) for nm in getattr(spec, "local_ok", ()) if nm in env}
        C.mutated = {}
        C.label(f"L{k}")
        return tuple(new[c] for c in spec.carried)

    @staticmethod
    def _prefix(n):
        j = bv("j!pf", sym.I)
        return z3.Lambda([j], z3.And(j >= 0, j < n))

    def for_has_next(self, k):
        st = C.loop_states[k]
        if getattr(st, "ordered", False):
            st.cur = st.nseen
            return C.fork(st.nseen < st.coll.count, f"loop{k} has next", else_assume=(st.nseen == st.coll.count))
        st.cur = C.fresh("cur", st.coll.sort)
        v = bv("v!l", st.coll.sort)
        done = z3.ForAll([v], z3.Implies(st.coll.pred(v), st.seen[v]))
        counted = st.coll.count is not None and st.coll.distinct
        if counted:
            # n distinct elements are exhausted after exactly n iterations
            done = z3.And(done, st.nseen == st.coll.count)
        more = C.fork(z3.And(st.coll.pred(st.cur), z3.Not(st.seen[st.cur])), f"loop{k} has next", else_assume=done)
        if more and counted:
            C.assume(st.nseen < st.coll.count)
        return more

    def for_pick(self, k):
        st = C.loop_states[k]
        return st.coll.elem(st.cur)

    def loop_back(self, k, env):
        spec = self.specs[k]
        st = C.loop_states[k]
        if st.is_for:
            st.nseen = st.nseen + 1
            st.seen = self._prefix(st.nseen) if getattr(st, "ordered", False) else z3.Store(st.seen, st.cur, True)
        for cl in spec.inv(env, st):
            C.check(cl[1], f"{self.fn_name}.loop{k}.preserved.{cl[0]}", cl[2] if len(cl) > 2 else (), kind="inv")
        v1 = spec.variant(env, st)
        if v1 is not None:
            C.check(v1 < st.var0, f"{self.fn_name}.loop{k}.variant_decreases", spec.variant_serves, kind="variant")
            C.check(v1 >= 0, f"{self.fn_name}.loop{k}.variant_bounded", spec.variant_serves, kind="variant")
        for nm, oid in st.local_ok_ids.items():
            if nm in env and id(env[nm]) != oid and isinstance(env[nm], (Sym, int, bool)):
                raise ContractBindError(f"loop {k} of {self.fn_name} re-binds '{nm}', which the loop contract treats as mutated in place")
        carried_ids = {id(env[c]) for c in spec.carried if c in env}
        for pid, p in C.mutated.items():
            if pid in st.mod_ids or pid in carried_ids:
                continue
            if getattr(p, "_serial", 0) > st.serial0:
                continue  # created inside the iteration
            raise ContractBindError(f"loop {k} of {self.fn_name} mutates {getattr(p, 'name', type(p).__name__)} which is not in the loop contract's modifies set")
        raise PathEnd(f"loop{k}")


# ------------------------------------------------------------------------------------------------------------
_BUILTIN_OVERRIDES = {
    "len": sym.vc_len,
    "max": sym.vc_max,
    "min": sym.vc_min,
    "set": sym.vc_set,
    "list": sym.vc_list,
    "bool": sym.vc_bool,
    "isinstance": sym.vc_isinstance,
    "enumerate": sym.vc_enumerate,
    "any": sym.vc_any,
    "all": sym.vc_all,
    "sum": sym.vc_sum,
    "tuple": sym.vc_tuple,
    "range": sym.vc_range,
    "type": sym.vc_type,
    "iter": sym.vc_iter,
    "zip": sym.vc_zip,
}


def real_module(modname):
    """import the module from /repo's working tree (never an installed copy)"""
    if sys.path[0] != REPO:
        sys.path.insert(0, REPO)
    m = importlib.import_module(modname)
    f = os.path.realpath(getattr(m, "__file__", ""))
    if not f.startswith(os.path.realpath(REPO) + os.sep):
        raise ContractBindError(f"{modname} imported from {f}, not from {REPO}")
    return m


def _known_module_functions():
    p = os.path.join(os.path.dirname(os.path.dirname(os.path.abspath(__file__))), "baseline", "module_functions.json")
    try:
        import json

        return json.load(open(p))
    except OSError:
        return {}


def _new_helper_guard(name):
    def guard(*a, **k):
        # running it natively would act on the REAL module state (e.g. `node.exec_nodes`), not on the contract's model of it
        raise Unsupported(f"module-level helper {name}() is new (not in baseline/module_functions.json) and has no contract")

    return guard


class FunctionUnderContract:
    """Binds a contract to the real source and produces the obligations.

    contract attributes:
      module   e.g. 'tawazi._dag.helpers'          qualname e.g. 'async_execute' / 'DiGraphEx.remove_root_node'
      loops    {ordinal: LoopSpec}
      namespace(self) -> dict of names to (re)bind in the function's globals (stubs of callees / libraries)
      cases(self) -> iterable of case names (default one)
      run(self, f, case) -> executes f on fresh symbolic inputs: assume pre, call, check post / exceptional post
    """

    def __init__(self, contract):
        self.c = contract
        self.name = f"{contract.module.split('.')[-1]}.{contract.qualname}"

    def build(self):
        c = self.c
        mod = real_module(c.module)
        path = os.path.join(REPO, *c.module.split(".")) + ".py"
        fn_ast, self.src_hash, self.src = load_function(path, c.qualname)
        specs = dict(getattr(c, "loops", {}) or {})
        self.rewritten, self.nloops = rewrite_function(fn_ast, specs, rename="__f", nested_stubs=tuple(getattr(c, "nested_stubs", ())))
        ns = dict(vars(mod))
        known = _known_module_functions().get(c.module)
        if known is not None:
            import types

            for name_, obj_ in vars(mod).items():
                if isinstance(obj_, types.FunctionType) and obj_.__module__ == c.module and name_ not in known:
                    ns[name_] = _new_helper_guard(name_)
        ns.update(_BUILTIN_OVERRIDES)
        ns["logger"] = sym.Inert()
        ns.update(c.namespace() if hasattr(c, "namespace") else {})
        ns["__vc"] = VC(self.name, specs)
        code = compile(self.rewritten, f"<{self.name} rewritten>", "exec")
        exec(code, ns)
        self.f = ns["__f"]
        self.f._vc_star = True
        return self

    def obligations(self):
        self.build()
        c = self.c
        all_paths, all_obl = [], []
        t0 = time.time()
        cases = list(c.cases()) if hasattr(c, "cases") else ["main"]
        for case in cases:
            def run_one(case=case):
                C.label(case)
                return c.run(self.f, case)

            static = list(sym.val_axioms()) + list(getattr(c, "static", lambda: [])())
            paths, obl = explore(self.name, run_one, static)
            all_paths += paths
            all_obl += obl
        self.explore_s = time.time() - t0
        return all_paths, all_obl
