"""pyvc.finite -- finite-scope refutation.  The uninterpreted node / future sorts of a query are instantiated to
enumerations of k elements (text-level: declare-sort -> declare-datatypes) and every quantifier over them is
expanded to a finite conjunction / disjunction, which leaves a (nearly) quantifier-free query.  A model found this
way is a model of the original query (an uninterpreted sort may be interpreted by any non-empty finite set)."""
from __future__ import annotations

import time

import z3

FINITE_SORTS = ("Id", "Fut", "Val", "Key", "KPath", "Exc", "Slot", "Tag")
SMALL = {"Val": 2, "Key": 1, "KPath": 2, "Exc": 1}  # scope of the value-domain sorts (independent of k)


def _to_enum_text(text, k):
    for s in FINITE_SORTS:
        decl = f"(declare-sort {s} 0)"
        if decl in text:
            n = SMALL.get(s, k)
            if s == "Key" and "key_twz_" in text:
                n = 4  # the three reserved keyword names are distinct keys; one more for an ordinary keyword
            ctors = " ".join(f"({s}!e{i})" for i in range(n))
            text = text.replace(decl, f"(declare-datatypes (({s} 0)) (({ctors})))")
    return text


def _expand(e, cache):
    eid = e.get_id()
    if eid in cache:
        return cache[eid]
    cache.setdefault("_keep", []).append(e)  # keep the key AST alive: ids of freed ASTs are re-used
    if z3.is_quantifier(e):
        n = e.num_vars()
        sorts = [e.var_sort(i) for i in range(n)]
        body = e.body()
        if e.is_lambda() and n == 1 and sorts[0].kind() == z3.Z3_DATATYPE_SORT and sorts[0].name() in FINITE_SORTS:
            # a lambda over an enumerated sort is the explicit finite array (keeps the array theory complete)
            dom = [sorts[0].constructor(j)() for j in range(sorts[0].num_constructors())]
            vals = [_expand(z3.substitute_vars(body, c), cache) for c in dom]
            r = z3.K(sorts[0], vals[0])
            for c, val in zip(dom[1:], vals[1:]):
                r = z3.Store(r, c, val)
        elif all(s.kind() == z3.Z3_DATATYPE_SORT and s.name() in FINITE_SORTS for s in sorts) and not e.is_lambda():
            doms = [[s.constructor(j)() for j in range(s.num_constructors())] for s in sorts]
            insts = []

            def rec(i, chosen):
                if i == n:
                    # de Bruijn: var index 0 is the LAST bound variable
                    insts.append(_expand(z3.substitute_vars(body, *reversed(chosen)), cache))
                    return
                for c in doms[i]:
                    rec(i + 1, chosen + [c])

            rec(0, [])
            r = z3.And(*insts) if e.is_forall() else z3.Or(*insts)
        else:
            nb = _expand(body, cache)
            if nb.eq(body):
                r = e
            else:
                vs = [z3.Const(f"{e.var_name(i)}!q{eid}", sorts[i]) for i in range(n)]
                inst = z3.substitute_vars(nb, *reversed(vs))
                r = z3.ForAll(vs, inst) if e.is_forall() else (z3.Exists(vs, inst) if e.is_exists() else e)
        cache[eid] = r
        return r
    if z3.is_app(e) and e.num_args() > 0:
        ch = [_expand(c, cache) for c in e.children()]
        if all(a.eq(b) for a, b in zip(ch, e.children())):
            r = e
        else:
            r = e.decl()(*ch)
        cache[eid] = r
        return r
    cache[eid] = e
    return e


def refute_finite(text, kmax=4, timeout_s=10, kmin=1):
    """-> (k, model_string) or (None, reason)"""
    last = ""
    for k in range(kmin, kmax + 1):
        ctx_text = _to_enum_text(text, k)
        try:
            asserts = z3.parse_smt2_string(ctx_text)
        except z3.Z3Exception as e:
            return None, f"parse error: {e}"
        s = z3.Solver()
        s.set("timeout", int(timeout_s * 1000))
        cache = {}
        for a in asserts:
            s.add(_expand(a, cache))
        t0 = time.time()
        r = s.check()
        if r == z3.sat:
            m = s.model()
            return k, model_to_text(m)
        last = f"k={k}: {r} in {time.time()-t0:.1f}s"
    return None, last


def model_to_text(m, limit=12000):
    lines = []
    for d in sorted(m.decls(), key=lambda d: d.name()):
        try:
            lines.append(f"{d.name()} = {m[d]}")
        except Exception:
            pass
    return "\n".join(lines)[:limit]


# ----------------------------------------------------------------------------------------------------------------------
# second refutation pass for queries with quantifiers over Int (indices of sequences): candidate + validation
# ----------------------------------------------------------------------------------------------------------------------
def _expand_ints(e, cache, values):
    """instantiate every quantifier over Int with the given values (CANDIDATE search only: not equivalence preserving)"""
    eid = ("i", e.get_id())
    if eid in cache:
        return cache[eid]
    cache.setdefault("_keep", []).append(e)
    if z3.is_quantifier(e) and not e.is_lambda():
        n = e.num_vars()
        sorts = [e.var_sort(i) for i in range(n)]
        body = _expand_ints(e.body(), cache, values)
        if all(s == z3.IntSort() for s in sorts):
            insts = []

            def rec(i, chosen):
                if i == n:
                    insts.append(z3.substitute_vars(body, *reversed(chosen)))
                    return
                for c in values:
                    rec(i + 1, chosen + [z3.IntVal(c)])

            rec(0, [])
            r = z3.And(*insts) if e.is_forall() else z3.Or(*insts)
        else:
            vs = [z3.Const(f"{e.var_name(i)}!qi{e.get_id()}", sorts[i]) for i in range(n)]
            inst = z3.substitute_vars(body, *reversed(vs))
            r = z3.ForAll(vs, inst) if e.is_forall() else z3.Exists(vs, inst)
        cache[eid] = r
        return r
    if z3.is_app(e) and e.num_args() > 0:
        ch = [_expand_ints(c, cache, values) for c in e.children()]
        r = e if all(a.eq(b) for a, b in zip(ch, e.children())) else e.decl()(*ch)
        cache[eid] = r
        return r
    cache[eid] = e
    return e


def _pin_model(m, decls):
    """definitions that pin every uninterpreted symbol to its value in model m"""
    out = []
    for d in decls:
        try:
            interp = m[d]
        except Exception:  # noqa: BLE001
            interp = None
        if interp is None:
            continue
        if d.arity() == 0:
            out.append(d() == interp)
            continue
        args = [z3.Const(f"a{i}!pin{d.name()}", d.domain(i)) for i in range(d.arity())]
        if isinstance(interp, z3.FuncInterp):
            body = interp.else_value()
            if body is None:
                continue
            body = z3.substitute_vars(body, *args)
            for ent in interp.as_list()[:-1]:
                cond = z3.And(*[a == v for a, v in zip(args, ent[:-1])])
                body = z3.If(cond, ent[-1], body)
        else:
            body = z3.substitute_vars(interp, *args)
        out.append(z3.ForAll(args, d(*args) == body))
    return out


def _decls_of(exprs):
    seen, out, ids = set(), [], set()
    stack = list(exprs)
    while stack:
        t = stack.pop()
        if t.get_id() in ids:
            continue
        ids.add(t.get_id())
        if z3.is_quantifier(t):
            stack.append(t.body())
            continue
        if z3.is_app(t):
            d = t.decl()
            if d.kind() == z3.Z3_OP_UNINTERPRETED and d.name() not in seen:
                seen.add(d.name())
                out.append(d)
            stack.extend(t.children())
    return out


def refute_with_int_candidates(text, kmax=3, timeout_s=10, int_values=(-1, 0, 1, 2)):
    try:
        return _refute_with_int_candidates(text, kmax, timeout_s, int_values)
    except z3.Z3Exception as e:  # a refutation attempt that fails is "no model found", never a crash of the check
        return None, f"int-candidate pass failed: {e}"


def _refute_with_int_candidates(text, kmax=3, timeout_s=10, int_values=(-1, 0, 1, 2)):
    """-> (k, model_text) or (None, reason).  Sound: a model is returned only after the ORIGINAL query (node sorts
    enumerated, Int quantifiers untouched) has been found satisfiable with every symbol pinned to the candidate's value."""
    last = ""
    for k in range(1, kmax + 1):
        try:
            asserts = z3.parse_smt2_string(_to_enum_text(text, k))
        except z3.Z3Exception as e:
            return None, f"parse error: {e}"
        c1, c2 = {}, {}
        orig = [_expand(a, c1) for a in asserts]
        cand = [_expand_ints(a, c2, int_values) for a in orig]
        s = z3.Solver()
        s.set("timeout", int(timeout_s * 1000))
        for a in cand:
            s.add(a)
        r = s.check()
        if r != z3.sat:
            last = f"k={k}: candidate search {r}"
            continue
        m = s.model()
        v = z3.Solver()
        v.set("timeout", int(timeout_s * 1000))
        for a in orig:
            v.add(a)
        for d in _pin_model(m, _decls_of(orig)):
            v.add(d)
        r2 = v.check()
        if r2 == z3.sat:
            return k, model_to_text(v.model())
        last = f"k={k}: candidate found but not validated ({r2})"
    return None, last
