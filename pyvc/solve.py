"""pyvc.solve -- discharge obligations: SMT-LIB text -> z3 (unbounded) -> cvc5 -> finite-scope refutation.

Verdicts:  discharged (unsat)  |  refuted (a model of  pc /\\ not goal  exists; found unbounded or in a finite scope
of the uninterpreted node/future sorts -- a finite model is a model)  |  undecided (never reported as a violation).
"""
from __future__ import annotations

import hashlib
import json
import os
import re
import subprocess
import time
from concurrent.futures import ThreadPoolExecutor

import z3

HERE = os.path.dirname(os.path.dirname(os.path.abspath(__file__)))
Z3_BIN = os.path.join(HERE, ".venv", "bin", "z3")
if not os.path.exists(Z3_BIN):
    Z3_BIN = "z3-new" if subprocess.run(["sh", "-c", "command -v z3-new"], capture_output=True).returncode == 0 else "z3"
CVC5_BIN = "/usr/bin/cvc5"
CACHE_DIR = os.path.join(HERE, ".cache")
Z3_T = int(os.environ.get("VERIF_Z3_TIMEOUT", "10"))
CVC5_T = int(os.environ.get("VERIF_CVC5_TIMEOUT", "20"))
FIN_T = int(os.environ.get("VERIF_FINITE_TIMEOUT", "10"))
WORKERS = int(os.environ.get("VERIF_WORKERS", "14"))
FINITE_SORTS = ("Id", "Fut")


def to_smt2(ob):
    s = z3.Solver()
    for f in ob.pc:
        s.add(f)
    s.add(z3.Not(ob.goal))
    return s.to_smt2()


def _run(cmd, text, timeout):
    t0 = time.time()
    try:
        p = subprocess.run(cmd, input=text, capture_output=True, text=True, timeout=timeout + 5)
        out = p.stdout.strip()
    except subprocess.TimeoutExpired:
        return "unknown", "timeout(kill)", time.time() - t0
    first = out.split("\n", 1)[0].strip() if out else ""
    if first in ("sat", "unsat", "unknown"):
        return first, out, time.time() - t0
    return "unknown", (out + p.stderr)[:500], time.time() - t0


def run_z3(text, timeout=None):
    return _run([Z3_BIN, "-smt2", "-in", f"-T:{timeout or Z3_T}"], text, timeout or Z3_T)


def run_cvc5(text, timeout=None):
    t = timeout or CVC5_T
    txt = "(set-logic ALL)\n" + text
    return _run([CVC5_BIN, "--lang=smt2", f"--tlimit={t * 1000}", "--full-saturate-quant"], txt, t)


def finite_scope(text, k):
    for s in FINITE_SORTS:
        decl = f"(declare-sort {s} 0)"
        if decl in text:
            ctors = " ".join(f"({s}!e{i})" for i in range(k))
            text = text.replace(decl, f"(declare-datatypes (({s} 0)) (({ctors})))")
    return text.replace("(check-sat)", "(check-sat)\n(get-model)")


def run_finite(text, kmax=4, kmin=1, ints=True, timeout_s=None):
    from .finite import refute_finite

    k, out = refute_finite(text, kmax=kmax, timeout_s=timeout_s or FIN_T, kmin=kmin)
    if k is not None:
        return "sat", k, out
    if ints and "Int" in text and ("forall" in text or "exists" in text):
        from .finite import refute_with_int_candidates

        k, out2 = refute_with_int_candidates(text, kmax=min(kmax, 3), timeout_s=FIN_T)
        if k is not None:
            return "sat", k, out2
        out = f"{out}; int-candidates: {out2}"
    return "unknown", None, out


_cache = None


def _load_cache():
    global _cache
    if _cache is None:
        _cache = {}
        p = os.path.join(CACHE_DIR, "smt_cache.json")
        if os.environ.get("VERIF_NO_CACHE") != "1" and os.path.exists(p):
            try:
                _cache = json.load(open(p))
            except Exception:
                _cache = {}
    return _cache


def _save_cache():
    if _cache is None or os.environ.get("VERIF_NO_CACHE") == "1":
        return
    os.makedirs(CACHE_DIR, exist_ok=True)
    tmp = os.path.join(CACHE_DIR, f"smt_cache.json.{os.getpid()}")
    json.dump(_cache, open(tmp, "w"))
    os.replace(tmp, os.path.join(CACHE_DIR, "smt_cache.json"))


def decide(text, cross=False):
    """-> dict(verdict, backend, seconds, detail)"""
    r, out, dt = run_z3(text)
    total = dt
    if r == "unsat":
        res = {"verdict": "discharged", "backend": "z3", "seconds": round(total, 3)}
        if cross:
            r2, _, dt2 = run_cvc5(text)
            res["cross"] = r2
            res["seconds"] = round(total + dt2, 3)
        return res
    if r == "sat":
        # unbounded sat on quantified formulas can be spurious only in the sense of an unhelpful model; it is a model
        fr, k, fout = run_finite(text)
        return {"verdict": "refuted", "backend": f"z3+finite(k={k})" if fr == "sat" else "z3", "seconds": round(total, 3), "model": (fout or out)[:6000], "scope": k}
    r2, out2, dt2 = run_cvc5(text)
    total += dt2
    if r2 == "unsat":
        return {"verdict": "discharged", "backend": "cvc5", "seconds": round(total, 3)}
    fr, k, fout = run_finite(text)
    if fr == "sat":
        return {"verdict": "refuted", "backend": f"z3-finite(k={k})", "seconds": round(total, 3), "model": fout[:6000], "scope": k}
    if r2 == "sat":
        return {"verdict": "refuted", "backend": "cvc5", "seconds": round(total, 3), "model": out2[:6000], "scope": None}
    return {"verdict": "undecided", "backend": "z3,cvc5,finite", "seconds": round(total, 3), "detail": (out or "")[:200]}


def discharge(obligations, cross=False, progress=None):
    """-> list of result dicts aligned with `obligations`"""
    cache = _load_cache()
    texts = [to_smt2(o) for o in obligations]
    keys = [hashlib.sha256((("X" if cross else "") + t).encode()).hexdigest() for t in texts]
    results = [None] * len(texts)
    todo = {}
    for i, k in enumerate(keys):
        if k in cache and cache[k]["verdict"] == "discharged":
            results[i] = dict(cache[k], cached=True)
        else:
            todo.setdefault(k, []).append(i)
    if todo:
        with ThreadPoolExecutor(max_workers=WORKERS) as ex:
            futs = {k: ex.submit(decide, texts[idx[0]], cross) for k, idx in todo.items()}
            for k, fu in futs.items():
                r = fu.result()
                if r["verdict"] == "discharged":
                    cache[k] = {kk: vv for kk, vv in r.items() if kk != "model"}
                for i in todo[k]:
                    results[i] = r
        _save_cache()
    return results, texts


_model_line = re.compile(r"\(define-fun ([^ ]+) \(\) ([A-Za-z]+)\s+([^)]+)\)")


def summarize_model(model_text, limit=40):
    """short, human readable extract of a finite-scope model"""
    out = []
    for m in _model_line.finditer(model_text or ""):
        out.append(f"{m.group(1)} = {m.group(3).strip()}")
        if len(out) >= limit:
            break
    return out
