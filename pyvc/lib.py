"""pyvc.lib -- TRUSTED LAYER: contracts of the library primitives the verified functions call
(networkx.DiGraph, concurrent.futures, asyncio, copy, dict/set).  Every clause here is an *assumption* listed in
the evidence files (DESIGN.md 3.3); the conformance test (harness/conformance.py) runs them against the real
libraries on random inputs.
"""
from __future__ import annotations

import z3

from . import sym
from .core import C, Unsupported
from .sym import B, I, Id, SBool, SId, SInt, SIter, SList, SMap, SSet, Sym, bv, card_axioms, term, wrap

E = z3.Function("E", Id, Id, B)  # the edge relation of the DAG (fixed once the graph is built)
rank = z3.Function("rank", Id, I)  # a topological rank, exists iff the graph is acyclic (find_cycle contract)


def acyclic_axiom():
    u, v = bv("u!a", Id), bv("v!a", Id)
    return z3.ForAll([u, v], z3.Implies(E(u, v), rank(u) < rank(v)))


class SGraph(Sym):
    """networkx.DiGraph restricted to what tawazi uses, over a fixed edge relation `E` (sub-graphs are induced):
    `N` node set, `cN` its ghost cardinality.  The four DiGraphEx tables are SMap defaultdict views."""

    def __init__(self, N=None, cN=None, name="graph", tables=None):
        self.name = name
        if N is None:
            N = C.fresh("N_" + name, sym.SetSort(Id))
            cN = C.fresh("cN_" + name, I)
            C.assume(card_axioms(N, cN, Id, "el_" + name))
        self.N, self.cN = N, cN
        self._serial = C.next_serial()
        self._deg = {}
        if tables is None:
            tables = {
                "compound_priority": SMap(Id, I, None, C.fresh("cp_" + name, z3.ArraySort(Id, I)), default=z3.IntVal(0), name="compound_priority"),
                "debug": SMap(Id, B, None, C.fresh("debug_" + name, z3.ArraySort(Id, B)), default=z3.BoolVal(False), name="debug"),
                "setup": SMap(Id, B, None, C.fresh("setup_" + name, z3.ArraySort(Id, B)), default=z3.BoolVal(False), name="setup"),
                "tag": SMap(Id, sym.Val, None, C.fresh("tag_" + name, z3.ArraySort(Id, sym.Val)), default=sym.none, name="tag"),
            }
        self.compound_priority = tables["compound_priority"]
        self.debug = tables["debug"]
        self.setup = tables["setup"]
        self.tag = tables["tag"]

    # -- ghost helpers for contracts
    def has(self, t):
        return self.N[t]

    def is_root(self, t, N=None):
        N = self.N if N is None else N
        u = bv("u!r", Id)
        return z3.And(N[t], z3.ForAll([u], z3.Implies(N[u], z3.Not(E(u, t)))))

    def havoc(self):
        self.N = C.fresh("N_" + self.name, sym.SetSort(Id))
        self.cN = C.fresh("cN_" + self.name, I)
        C.assume(card_axioms(self.N, self.cN, Id, "el_" + self.name))

    def _touch(self):
        C.mutated[id(self)] = self

    # -- networkx API (trusted contracts)
    def _vc_len(self):
        return SInt(self.cN)

    def _vc_contains(self, x):
        return SBool(self.N[term(x)])

    def _vc_iter(self):
        N = self.N
        return SIter(Id, lambda v: N[v], lambda v: SId(v), count=self.cN)

    @property
    def nodes(self):
        return SNodeView(self)

    def _degview(self, kind):
        """degree of every node of the current node set, characterised for the values 0, 1, >= 2"""
        key = (kind, self.N.get_id())
        if key in self._deg:
            return self._deg[key]
        N = self.N
        deg = C.freshf(f"{kind}deg", Id, I)
        pa = C.freshf(f"{kind}_nbA", Id, Id)
        pb = C.freshf(f"{kind}_nbB", Id, Id)
        edge = (lambda a, b: E(a, b)) if kind == "in" else (lambda a, b: E(b, a))  # edge(nb, n)
        n, u = bv("n!d", Id), bv("u!d", Id)
        C.assume(
            z3.ForAll([n], deg(n) >= 0),
            z3.ForAll([n, u], z3.Implies(z3.And(deg(n) == 0, N[u]), z3.Not(edge(u, n)))),
            z3.ForAll([n], z3.Implies(deg(n) >= 1, z3.And(N[pa(n)], edge(pa(n), n)))),
            z3.ForAll([n, u], z3.Implies(z3.And(deg(n) == 1, N[u], edge(u, n)), u == pa(n))),
            z3.ForAll([n], z3.Implies(deg(n) >= 2, z3.And(N[pb(n)], edge(pb(n), n), pb(n) != pa(n)))),
        )
        self._deg[key] = deg
        return deg

    @property
    def in_degree(self):
        return SDegView(self, self._degview("in"))

    @property
    def out_degree(self):
        return SDegView(self, self._degview("out"))

    def successors(self, n):
        t = term(n)
        C.check(self.N[t], "no_internal_error.successors_of_graph_node", serves={"C14"}, kind="internal")
        C.assume(self.N[t])
        N = self.N
        return SIter(Id, lambda v: z3.And(N[v], E(t, v)), lambda v: SId(v))

    def predecessors(self, n):
        t = term(n)
        C.check(self.N[t], "no_internal_error.predecessors_of_graph_node", serves={"C14"}, kind="internal")
        C.assume(self.N[t])
        N = self.N
        return SIter(Id, lambda v: z3.And(N[v], E(v, t)), lambda v: SId(v))

    def remove_node(self, n):
        t = term(n)
        C.check(self.N[t], "no_internal_error.remove_node_in_graph", serves={"C14"}, kind="internal")
        C.assume(self.N[t])
        self._touch()
        self.N = z3.Store(self.N, t, False)
        self.cN = z3.simplify(self.cN - 1)

    def remove_nodes_from(self, coll):
        s = sym.as_set(coll, Id)
        self._touch()
        old, oc = self.N, self.cN
        self.N = C.fresh("N_" + self.name, sym.SetSort(Id))
        self.cN = C.fresh("cN_" + self.name, I)
        v = bv("v!g", Id)
        C.assume(z3.ForAll([v], self.N[v] == z3.And(old[v], z3.Not(s.mem(v)))))
        C.assume(card_axioms(self.N, self.cN, Id, "el_" + self.name))
        C.assume(self.cN <= oc)


class SNodeView(Sym):
    def __init__(self, g):
        self.g = g

    def _vc_contains(self, x):
        return self.g._vc_contains(x)

    def _vc_iter(self):
        return self.g._vc_iter()

    def _vc_len(self):
        return self.g._vc_len()

    def __call__(self):
        return self


class SDegView(Sym):
    def __init__(self, g, deg):
        self.g, self.deg = g, deg

    def __getitem__(self, n):
        t = term(n)
        C.check(self.g.N[t], "no_internal_error.degree_of_graph_node", serves={"C14"}, kind="internal")
        C.assume(self.g.N[t])
        return SInt(self.deg(t))

    def _vc_iter(self):
        N = self.g.N
        return SIter(Id, lambda v: N[v], lambda v: (SId(v), SInt(self.deg(v))), count=self.g.cN)
