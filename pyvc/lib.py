"""pyvc.lib -- TRUSTED LAYER: contracts of the library primitives the verified functions call
(networkx.DiGraph, concurrent.futures, asyncio, copy, dict/set).  Every clause here is an *assumption* listed in
the evidence files (DESIGN.md 3.3); the conformance test (harness/conformance.py) runs them against the real
libraries on random inputs.
"""
from __future__ import annotations

import z3

from . import sym
from .core import C, Unsupported
from .sym import B, I, Id, SBool, SId, SInt, SIter, SList, SMap, SSet, Sym, bv, card_axioms, term, wrap

E = z3.Function("E", Id, Id, B)  # the edge relation of the DAG (fixed once the graph is built)
rank = z3.Function("rank", Id, I)  # a topological rank, exists iff the graph is acyclic (find_cycle contract)


def acyclic_axiom():
    u, v = bv("u!a", Id), bv("v!a", Id)
    return z3.ForAll([u, v], z3.Implies(E(u, v), rank(u) < rank(v)))


class SGraph(Sym):
    """networkx.DiGraph restricted to what tawazi uses, over a fixed edge relation `E` (sub-graphs are induced):
    `N` node set, `cN` its ghost cardinality.  The four DiGraphEx tables are SMap defaultdict views."""

    def __init__(self, N=None, cN=None, name="graph", tables=None):
        self.name = name
        if N is None:
            N = C.fresh("N_" + name, sym.SetSort(Id))
            cN = C.fresh("cN_" + name, I)
            C.assume(card_axioms(N, cN, Id, "el_" + name))
        self.N, self.cN = N, cN
        self._serial = C.next_serial()
        self._deg = {}
        if tables is None:
            tables = {
                "compound_priority": SMap(Id, I, None, C.fresh("cp_" + name, z3.ArraySort(Id, I)), default=z3.IntVal(0), name="compound_priority"),
                "debug": SMap(Id, B, None, C.fresh("debug_" + name, z3.ArraySort(Id, B)), default=z3.BoolVal(False), name="debug"),
                "setup": SMap(Id, B, None, C.fresh("setup_" + name, z3.ArraySort(Id, B)), default=z3.BoolVal(False), name="setup"),
                "tag": SMap(Id, sym.Val, None, C.fresh("tag_" + name, z3.ArraySort(Id, sym.Val)), default=sym.none, name="tag"),
            }
        self.compound_priority = tables["compound_priority"]
        self.debug = tables["debug"]
        self.setup = tables["setup"]
        self.tag = tables["tag"]

    # -- ghost helpers for contracts
    def has(self, t):
        return self.N[t]

    def is_root(self, t, N=None):
        N = self.N if N is None else N
        u = bv("u!r", Id)
        return z3.And(N[t], z3.ForAll([u], z3.Implies(N[u], z3.Not(E(u, t)))))

    def havoc(self):
        self.N = C.fresh("N_" + self.name, sym.SetSort(Id))
        self.cN = C.fresh("cN_" + self.name, I)
        C.assume(card_axioms(self.N, self.cN, Id, "el_" + self.name))

    def _touch(self):
        C.mutated[id(self)] = self

    # -- networkx API (trusted contracts)
    def _vc_len(self):
        return SInt(self.cN)

    def _vc_contains(self, x):
        return SBool(self.N[term(x)])

    def _vc_iter(self):
        N = self.N
        return SIter(Id, lambda v: N[v], lambda v: SId(v), count=self.cN)

    @property
    def nodes(self):
        return SNodeView(self)

    def _degview(self, kind):
        """degree of every node of the current node set, characterised for the values 0, 1, >= 2"""
        key = (kind, self.N.get_id())
        if key in self._deg:
            return self._deg[key]
        N = self.N
        deg = C.freshf(f"{kind}deg", Id, I)
        pa = C.freshf(f"{kind}_nbA", Id, Id)
        pb = C.freshf(f"{kind}_nbB", Id, Id)
        edge = (lambda a, b: E(a, b)) if kind == "in" else (lambda a, b: E(b, a))  # edge(nb, n)
        n, u = bv("n!d", Id), bv("u!d", Id)
        C.assume(
            z3.ForAll([n], deg(n) >= 0),
            z3.ForAll([n, u], z3.Implies(z3.And(deg(n) == 0, N[u]), z3.Not(edge(u, n)))),
            z3.ForAll([n], z3.Implies(deg(n) >= 1, z3.And(N[pa(n)], edge(pa(n), n)))),
            z3.ForAll([n, u], z3.Implies(z3.And(deg(n) == 1, N[u], edge(u, n)), u == pa(n))),
            z3.ForAll([n], z3.Implies(deg(n) >= 2, z3.And(N[pb(n)], edge(pb(n), n), pb(n) != pa(n)))),
        )
        self._deg[key] = deg
        return deg

    @property
    def in_degree(self):
        return SDegView(self, self._degview("in"))

    @property
    def out_degree(self):
        return SDegView(self, self._degview("out"))

    def successors(self, n):
        t = term(n)
        C.check(self.N[t], "no_internal_error.successors_of_graph_node", serves={"C14"}, kind="internal")
        C.assume(self.N[t])
        N = self.N
        return SIter(Id, lambda v: z3.And(N[v], E(t, v)), lambda v: SId(v))

    def predecessors(self, n):
        t = term(n)
        C.check(self.N[t], "no_internal_error.predecessors_of_graph_node", serves={"C14"}, kind="internal")
        C.assume(self.N[t])
        N = self.N
        return SIter(Id, lambda v: z3.And(N[v], E(v, t)), lambda v: SId(v))

    def remove_node(self, n):
        t = term(n)
        C.check(self.N[t], "no_internal_error.remove_node_in_graph", serves={"C14"}, kind="internal")
        C.assume(self.N[t])
        self._touch()
        self.N = z3.Store(self.N, t, False)
        self.cN = z3.simplify(self.cN - 1)

    def remove_nodes_from(self, coll):
        s = sym.as_set(coll, Id)
        self._touch()
        old, oc = self.N, self.cN
        self.N = C.fresh("N_" + self.name, sym.SetSort(Id))
        self.cN = C.fresh("cN_" + self.name, I)
        v = bv("v!g", Id)
        C.assume(z3.ForAll([v], self.N[v] == z3.And(old[v], z3.Not(s.mem(v)))))
        C.assume(card_axioms(self.N, self.cN, Id, "el_" + self.name))
        C.assume(self.cN <= oc)


class SNodeView(Sym):
    def __init__(self, g):
        self.g = g

    def _vc_contains(self, x):
        return self.g._vc_contains(x)

    def _vc_iter(self):
        return self.g._vc_iter()

    def _vc_len(self):
        return self.g._vc_len()

    def __call__(self):
        return self


class SDegView(Sym):
    def __init__(self, g, deg):
        self.g, self.deg = g, deg

    def __getitem__(self, n):
        t = term(n)
        C.check(self.g.N[t], "no_internal_error.degree_of_graph_node", serves={"C14"}, kind="internal")
        C.assume(self.g.N[t])
        return SInt(self.deg(t))

    def _vc_iter(self):
        N = self.g.N
        return SIter(Id, lambda v: N[v], lambda v: (SId(v), SInt(self.deg(v))), count=self.g.cN)


# ----------------------------------------------------------------------------------------------------------------
# reachability (trusted contracts of networkx traversal functions + lemma L2 instances)
# ----------------------------------------------------------------------------------------------------------------
Reach = z3.Function("Reach", sym.SetSort(Id), Id, Id, B)  # Reach(S, u, v): a path u ->* v inside the node set S


class ReachTheory:
    """axioms of `Reach` for the node-set terms a function actually talks about (registered on demand), plus the
    instances of lemma L2 (Lean: lemmas/graph_lemmas.lean) for every ordered pair of registered sets."""

    def __init__(self):
        self.sets = []

    def register(self, S):
        for T in self.sets:
            if z3.eq(T, S):
                return
        u, v, w = bv("u!R", Id), bv("v!R", Id), bv("w!R", Id)
        C.assume(
            z3.ForAll([u], z3.Implies(S[u], Reach(S, u, u))),
            z3.ForAll([u, v, w], z3.Implies(z3.And(Reach(S, u, v), E(v, w), S[w]), Reach(S, u, w))),
            z3.ForAll([u, v, w], z3.Implies(z3.And(Reach(S, v, w), E(u, v), S[u]), Reach(S, u, w))),
            z3.ForAll([u, v], z3.Implies(Reach(S, u, v), z3.And(S[u], S[v]))),
            z3.ForAll([u, v], z3.Implies(z3.And(Reach(S, u, v), u != v), z3.Exists([w], z3.And(S[w], E(u, w), Reach(S, w, v))))),
            z3.ForAll([u, v], z3.Implies(z3.And(Reach(S, u, v), u != v), z3.Exists([w], z3.And(S[w], E(w, v), Reach(S, u, w))))),
        )
        for T in self.sets:
            self._pair(S, T)
            self._pair(T, S)
        self.sets.append(S)

    def _pair(self, S, T):
        """lemma L2 for S subset of T"""
        u, v, w = bv("u!R", Id), bv("v!R", Id), bv("w!R", Id)
        sub = z3.ForAll([u], z3.Implies(S[u], T[u]))
        succ_closed = z3.ForAll([u, w], z3.Implies(z3.And(S[u], E(u, w), T[w]), S[w]))
        pred_closed = z3.ForAll([u, w], z3.Implies(z3.And(S[w], E(u, w), T[u]), S[u]))
        C.assume(
            z3.Implies(sub, z3.ForAll([u, v], z3.Implies(Reach(S, u, v), Reach(T, u, v)))),
            z3.Implies(z3.And(sub, succ_closed), z3.ForAll([u, v], z3.Implies(z3.And(S[u], Reach(T, u, v)), z3.And(S[v], Reach(S, u, v))))),
            z3.Implies(z3.And(sub, pred_closed), z3.ForAll([u, v], z3.Implies(z3.And(S[v], Reach(T, u, v)), z3.And(S[u], Reach(S, u, v))))),
        )


def reach_theory():
    if "reach" not in C.ghost:
        C.ghost["reach"] = ReachTheory()
    return C.ghost["reach"]


class NetworkXError(Exception):
    pass


def _in_graph(g, t, what):
    """networkx raises for a node that is not in the graph: modelled as an exception path"""
    if not C.fork(g.N[t], f"{what}: node in graph"):
        raise NetworkXError(what)


class NxModule(Sym):
    """the `nx` module as used by tawazi/_dag/digraph.py and dag.py (trusted contracts, DESIGN 3.3)"""

    @staticmethod
    def dfs_tree(G, source):
        t = term(source)
        _in_graph(G, t, "dfs_tree")
        reach_theory().register(G.N)
        N = G.N

        class _T(Sym):
            def nodes(self):
                return SIter(Id, lambda v: Reach(N, t, v), lambda v: SId(v))

        return _T()

    @staticmethod
    def ancestors(G, source):
        t = term(source)
        _in_graph(G, t, "ancestors")
        reach_theory().register(G.N)
        N = G.N
        return SSet.define("ancestors", Id, lambda v: z3.And(Reach(N, v, t), v != t))

    @staticmethod
    def descendants(G, source):
        t = term(source)
        _in_graph(G, t, "descendants")
        reach_theory().register(G.N)
        N = G.N
        s = SSet(Id, z3.Lambda([bv("v!L", Id)], z3.And(Reach(N, t, bv("v!L", Id)), bv("v!L", Id) != t)), C.fresh("c_desc", I), "descendants")
        return s

    @staticmethod
    def induced_subgraph(G, nbunch):
        return G.subgraph(nbunch)


def graph_subgraph(self, nbunch):
    """G.subgraph(S) / nx.induced_subgraph(G, S): a view on the induced sub-graph, created by `G.__class__()`:
    a *fresh* instance whose DiGraphEx tables are the empty defaults (this is what loses the tables)"""
    s = sym.as_set(nbunch, Id)
    g = type(self)(name="view")
    v = bv("v!sg", Id)
    C.assume(z3.ForAll([v], g.N[v] == z3.And(self.N[v], s.mem(v))), g.cN <= self.cN)
    g.is_view = True
    _empty_tables(g)
    return g


def _empty_tables(g):
    g.compound_priority = SMap(Id, I, None, z3.K(Id, z3.IntVal(0)), default=z3.IntVal(0), name="compound_priority")
    g.debug = SMap(Id, B, None, z3.K(Id, z3.BoolVal(False)), default=z3.BoolVal(False), name="debug")
    g.setup = SMap(Id, B, None, z3.K(Id, z3.BoolVal(False)), default=z3.BoolVal(False), name="setup")
    g.tag = SMap(Id, sym.Val, None, z3.K(Id, sym.none), default=sym.none, name="tag")


def graph_copy(self):
    """G.copy(): a fresh independent graph of the same class with the same nodes / edges (tables: class defaults)"""
    g = type(self)(N=self.N, cN=self.cN, name="copy")
    _empty_tables(g)
    g.owner = "fresh"
    return g


SGraph.subgraph = graph_subgraph
SGraph.copy = graph_copy


def deepcopy_graph(g):
    """copy.deepcopy of a DiGraphEx: equal, unshared (tables included)"""
    n = type(g)(N=g.N, cN=g.cN, name="deepcopy", tables=dict(compound_priority=g.compound_priority.clone(), debug=g.debug.clone(), setup=g.setup.clone(), tag=g.tag.clone()))
    n.owner = "fresh"
    return n


def vc_chain(*its):
    """itertools.chain: of one iterable it is that iterable; `chain(*X)` over a symbolic collection of collections
    is their flattening"""
    if len(its) == 1:
        return its[0]
    raise Unsupported("chain of several iterables")


def vc_chain_star(star):
    col = star._vc_iter() if hasattr(star, "_vc_iter") else None
    if col is None:
        raise Unsupported("chain(*concrete)")
    n = bv("n!ch", col.sort)
    inner = col.elem(n)
    mem = (lambda w: inner.s.mem(w)) if isinstance(inner, SList) else (lambda w: inner.mem(w)) if isinstance(inner, SSet) else (lambda w: inner._vc_iter().pred(w)) if hasattr(inner, "_vc_iter") else None
    if mem is None:
        raise Unsupported("chain(*X): elements are not collections")
    esort = inner.s.sort if isinstance(inner, SList) else inner.sort if isinstance(inner, SSet) else inner._vc_iter().sort
    return SIter(esort, lambda w: z3.Exists([n], z3.And(col.pred(n), mem(w))), lambda w: wrap(w), count=None, distinct=False)


vc_chain._vc_star = False


def union_all(base, star):
    """set().union(*X) over a symbolic collection X of sets"""
    flat = vc_chain_star(star)
    s = flat.to_set("union_all")
    return base.union(s) if base.sort is not None else s
