"""Texts of MANIFEST.json (level claimed per property)."""
T_SCHED = "contract-based deductive verification: loop invariant + per-primitive assertions on the real async_execute / wait helpers / remove_root_node / root_nodes, VCs generated from the source on every run, discharged by z3 (cvc5 fall-back); refuted VCs replayed on the real scheduler"
N_SCHED = ("trusted: contracts of networkx / concurrent.futures / asyncio primitives (pyvc/lib.py, contracts/scheduler.py), the bridge between scheduler-observed state and real time, "
           "lemma L1 (Lean), the rewrite rules, z3/cvc5. The bounded harness sweep that accompanies the proof is labelled bounded and not counted as proved.")


def sched(text):
    return dict(category="proof", text=text, note=N_SCHED, technique=T_SCHED, design_ref="DESIGN.md sections 4 and 5")


LEVEL = {
    "C02": sched("For every DAG shape, attribute assignment, max_concurrency and completion order (no bound): at every dispatch point of the real scheduler all selected predecessors of the dispatched node are finished or deactivated, the activation flag is not in flight, and the runnable set never contains a node with a predecessor in the remaining graph (invariant I4b/I5, remove_root_node.sound)."),
    "C03": sched("Unbounded proof that the dispatched set is exactly the selected active nodes, each dispatched once: not_started / selected / no_result_yet at every dispatch, the post-condition 'every selected node ran or was deactivated, nothing else ran', and the invariants I1-I4 they rest on."),
    "C04": sched("Unbounded proof that the number of pooled nodes in flight is below max_concurrency at every submit / ensure_future, that the pool is created with max_workers = max_concurrency, and that the dispatch primitive is decided by the node's resource."),
    "C05": sched("Unbounded proof that a sequential node is only dispatched with nothing in flight, that nothing is dispatched while one is in flight, and that none is in flight at the loop head (I8)."),
    "C06": sched("Unbounded proof that at every dispatch the chosen node maximises the graph's compound-priority table over the exact ready set (needs the completeness half of the runnable-set invariant)."),
    "C08": sched("Unbounded proof that every blocking wait of the scheduler happens in a state allowed by the property (limit reached, nothing ready, a sequential node running or best candidate) and waits for the first completion unless a sequential node runs -- except the recorded known finding KF-C08-mixed, whose obligations are reported separately."),
    "C09": sched("Unbounded proof of termination of the scheduler loop (variant |graph| + |pending| strictly decreases on every back edge, bounded below), absence of spinning (graph non-empty implies runnable or in flight, via lemma L1), termination of the helper loops, and 'normal return implies every selected node ran or was deactivated'."),
    "C10": sched("Unbounded proof that a node is dispatched only if its activation flag (after its key path) is truthy in the results map, deactivated only if it is not, that a deactivated node gets None and releases its successors (scheduler part of the property)."),
    "C14": sched("Unbounded proof of the exceptional post-conditions of the scheduler: what escapes is a node failure, the failed node was started and never finished and stays in the graph (so no descendant ever becomes ready), and no internal KeyError / ValueError / networkx error path is feasible under the invariant."),
}
NOT_APPLICABLE = {}
