"""Registry of the bounded stand-ins on the real code (harness/): name -> fn(seed, thorough) -> dict(cases, violations, known, bound)."""
from __future__ import annotations


def _hist(fn, quick, thorough_n, bound, **kw):
    def run(seed, thorough=False):
        from harness import histories as H

        n = thorough_n if thorough else quick
        del H.SAMPLES[:]
        v, cases = getattr(H, fn)(seed, n, **kw)
        return dict(cases=cases, violations=v, known={}, bound=bound.format(n=n, seed=seed), samples=list(H.SAMPLES))

    return run


def _prog(fn, quick, thorough_n, bound, **kw):
    def run(seed, thorough=False):
        from harness import programs as P

        n = thorough_n if thorough else quick
        del P.SAMPLES[:]
        v, cases = getattr(P, fn)(seed, n, **kw)
        known, unknown = {}, []
        for x in v:
            kf = [m for m in x["violations"] if "[KF-" in m]
            if kf and len(kf) == len(x["violations"]):
                k = kf[0].split("]")[0].strip("[")
                known[k] = known.get(k, 0) + 1
            else:
                unknown.append(x)
        return dict(cases=cases, violations=unknown, known=known, bound=bound.format(n=n, seed=seed), samples=list(P.SAMPLES))

    return run


def _misc(fn, bound, quick_kw=None, thorough_kw=None):
    def run(seed, thorough=False):
        from harness import misc as M

        kw = dict((thorough_kw if thorough else quick_kw) or {})
        v, cases = getattr(M, fn)(seed, **kw)
        return dict(cases=cases, violations=v, known={}, bound=bound.replace("{seed}", str(seed)))

    return run


def _conformance(seed, thorough=False):
    from harness.conformance import check_conformance

    v, cases = check_conformance(seed, n_cases=1500 if thorough else 150)
    return dict(cases=cases, violations=v, known={}, bound=f"{cases} random graphs <= 6 nodes (seed {seed}) + one thread-pool / event-loop scenario: every clause of the TRUSTED networkx / concurrent.futures / asyncio / copy / pickle / functools contracts evaluated on the real libraries (tested, not proved)")


def _differential(seed, thorough=False):
    from harness.differential import check_differential

    v, cases = check_differential(seed, n_cases=400 if thorough else 60)
    from harness.differential import SKIPPED

    # a divergence is a defect of the CHECKER for the current shape of the code (assumption "CPython executes the rewritten body as
    # the original" refuted), not a violation of the property: check_property turns it into *undecided* functions
    return dict(cases=cases, violations=[], divergences=v, skipped=list(SKIPPED), known={}, bound=f"{cases} concrete runs (seed {seed}): the mechanically rewritten bodies of 17 functions under contract (loop-cut scaffolding in place, real module namespace, builtin overrides) against the untouched functions on random graphs / node tables / results maps")


BOUNDED = {
    "conformance": _conformance,
    "differential": _differential,
    "threads": _misc("check_threads", "real threads: 6 rounds of 6 concurrent calls of one DAG; a call and an @xn call while another thread's build is paused inside its describing function; two concurrent builds with the lock hand-over forced (delegating lock)", dict(n_cases=6), dict(n_cases=30)),
    "async": _misc("check_async", "one event loop: gather of 2 and 5 first awaits of an AsyncDAG with an unexecuted setup node; an async-thread node released by a sibling coroutine (also after a node failure)"),
    "priority_table": _misc("check_priority_table", "random DAGs <= 5 nodes (non-tree shapes) with integer priorities, seed {seed}: table of the DAG and of 4 executors vs own + sum over distinct descendants; thorough: + 6 sub-processes with different PYTHONHASHSEED", dict(n_cases=150), dict(n_cases=1500, hash_seeds=(0, 1, 2, 3, 4, 5))),
    "graph_build": _misc("check_graph_build", "random node tables <= 5 nodes + <= 2 DAG inputs with positional / keyword / activation references in any direction (cycles included), setup / debug flags and tags, seed {seed}: the real DiGraphEx.from_exec_nodes against an independent oracle (refusals, nodes, edges, tables, compound priorities)", dict(n_cases=300), dict(n_cases=5000)),
    "operator_table": _misc("check_operator_table", "finite domain, exhaustive: every binary operator of Python's data model in forward / reflected / node-node form, the six comparisons, the four unary operators, on order-recording probe values, + 6 order-sensitive builtin operand pairs (str, list, tuple, dict, int)"),
    "id_strings": _misc("check_id_strings", "random programs, seed {seed}: <= 3 decorated functions with realistic but awkward qualified names (dots, '<locals>', '<lambda>', digits, prefixes of each other, DAG names equal to function names), each reused up to 6 call sites with positional / keyword constants, nesting depth <= 2 with clashing DAG names: value and per-function execution counts against the plain evaluation (the string-level facts the proofs assume about generated ids)", dict(n_cases=120), dict(n_cases=1500)),
    "default_identity": _misc("check_default_identity", "deterministic: a sentinel default tested with `is` and a mutable default appended to in place over three calls, DAG and AsyncDAG, against the plain function"),
    "profile": _misc("check_profile", "finite domain, complete: Profile(active in {True, False}).__exit__ with and without an exception"),
    "programs": _prog("check_equivalence", 250, 4000, "{n} random describing functions (<= 5 statements, nesting depth <= 2, all argument / flag / return forms of the supported fragment), seed {seed}: DAG and AsyncDAG value and per-call-site execution counts against ONE interpreter run with the plain callables; re-run after config_from_dict and a second call"),
    "programs_flat": _prog("check_equivalence", 150, 2000, "{n} random flat describing functions (no nesting), seed {seed}", nested=False),
    "reference_matrix": _prog("check_reference_matrix", 0, 0, "exhaustive matrix: reference kind (positional, keyword, activation) x source (parameter, result, indexed / unpacked / nested-key result) x nesting depth 0..2 x 3 inputs (216 programs)"),
    "build_validation": _prog("check_build_validation", 60, 400, "{n} random (illegal or legal setup/debug dependency) x (positional first, positional after a constant, keyword, activation) builds, seed {seed}"),
    "selection": _hist("check_selection", 250, 3000, "{n} random (DAG <= 4 nodes, R, X, T) selections, seed {seed}: executor graph, executed set, returned values, ValueError cases against the documented closure"),
    "selection_debug": _hist("check_selection", 250, 3000, "{n} random selections on DAGs with debug nodes, both settings of RUN_DEBUG_NODES, seed {seed}", debug=True),
    "failure_recovery": _hist("check_failure_recovery", 0, 0, "deterministic: DAG / AsyncDAG with a setup node (valued / None) x failed call / executor run / setup() (the setup node or a later node raises) followed by call, executor, setup() on the same DAG and a call on another DAG: each returns (wall-clock watchdog) and equals a freshly built DAG"),
    "setup_histories": _hist("check_setup_histories", 200, 2500, "{n} random histories (length 5) over call/executor/setup/setup(selection)/deepcopy on DAGs <= 4 nodes with setup nodes, seed {seed}"),
    "no_leak": _hist("check_no_leak", 60, 600, "{n} random histories (4 steps: calls, executors, failing executors, compose, config) on DAGs <= 4 nodes, seed {seed}; after every step a call is compared with a freshly built DAG"),
    "cache": _hist("check_cache", 150, 2000, "{n} random (DAG <= 4 nodes, caching mode) pairs of caching run / restart run on a fresh instance, seed {seed}"),
    "config": _hist("check_config", 150, 1500, "{n} random (DAG <= 4 nodes, config dict over 1-3 nodes + max_concurrency) re-configurations, seed {seed}: table vs oracle for call / executors, then up to 6 controlled schedules with the C04 C05 C06 C08 monitors"),
    "compose": _hist("check_compose", 250, 3000, "{n} random (DAG <= 4 nodes with keyed / keyword / activation references, inputs, outputs) compositions, seed {seed}"),
}
