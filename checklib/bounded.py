"""Registry of the bounded stand-ins on the real code (harness/): name -> fn(seed, thorough) -> dict(cases, violations, known, bound)."""
from __future__ import annotations


def _hist(fn, quick, thorough_n, bound, **kw):
    def run(seed, thorough=False):
        from harness import histories as H

        n = thorough_n if thorough else quick
        v, cases = getattr(H, fn)(seed, n, **kw)
        return dict(cases=cases, violations=v, known={}, bound=bound.format(n=n, seed=seed))

    return run


BOUNDED = {
    "selection": _hist("check_selection", 250, 3000, "{n} random (DAG <= 4 nodes, R, X, T) selections, seed {seed}: executor graph, executed set, returned values, ValueError cases against the documented closure"),
    "selection_debug": _hist("check_selection", 250, 3000, "{n} random selections on DAGs with debug nodes, both settings of RUN_DEBUG_NODES, seed {seed}", debug=True),
    "setup_histories": _hist("check_setup_histories", 200, 2500, "{n} random histories (length 5) over call/executor/setup/setup(selection)/deepcopy on DAGs <= 4 nodes with setup nodes, seed {seed}"),
    "no_leak": _hist("check_no_leak", 60, 600, "{n} random histories (4 steps: calls, executors, failing executors, compose, config) on DAGs <= 4 nodes, seed {seed}; after every step a call is compared with a freshly built DAG"),
    "cache": _hist("check_cache", 150, 2000, "{n} random (DAG <= 4 nodes, caching mode) pairs of caching run / restart run on a fresh instance, seed {seed}"),
    "config": _hist("check_config", 150, 1500, "{n} random (DAG <= 4 nodes, config dict over 1-3 nodes + max_concurrency) re-configurations, seed {seed}: table vs oracle for call / executors, then up to 6 controlled schedules with the C04 C05 C06 C08 monitors"),
    "compose": _hist("check_compose", 250, 3000, "{n} random (DAG <= 4 nodes with keyed / keyword / activation references, inputs, outputs) compositions, seed {seed}"),
}
