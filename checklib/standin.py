"""Bounded stand-in / replay search on the REAL code (harness).  Its results are labelled *bounded* in the
evidence and never added to the discharged obligations."""
from __future__ import annotations

import time


def split_known(pid, viols):
    from checklib.main import kf_of_message

    known, unknown = {}, []
    for v in viols:
        msgs = v["violations"].get(pid, [])
        un = [m for m in msgs if kf_of_message(m, pid) is None]
        for m in msgs:
            f = kf_of_message(m, pid)
            if f is not None:
                known[f["id"]] = known.get(f["id"], 0) + 1
        if un:
            unknown.append(dict(v, violations={pid: un}, kind="sched"))
    return known, unknown


def run_standin(pid, cfg, tier, seed, thorough=False, escalate=False):
    t0 = time.time()
    kind = cfg.get("kind", "sched")
    if kind == "sched":
        from harness.explore import sweep

        n_max = cfg.get("n_thorough", 4) if thorough else cfg.get("n_quick", 3)
        sps = cfg.get("samples_thorough", 6) if thorough else cfg.get("samples_quick", 3)
        r = sweep([pid], n_max=n_max, seed=seed, samples_per_shape=sps, stop_at_first=False, allow_fail=cfg.get("fail", False), allow_active=cfg.get("active", False),
                  budget_runs=cfg.get("budget_thorough", 60000) if (thorough or escalate) else cfg.get("budget_quick", 6000), escalate=escalate)
        known, unknown = split_known(pid, r["violations"])
        # replay the witnesses of the open known findings
        from checklib.main import open_findings
        from checklib.replay import run_sched_witness

        for f in open_findings(pid):
            if f.get("witness"):
                msgs = run_sched_witness(f["witness"], [pid]).get(pid, [])
                if any(f["harness_tag"] in m for m in msgs):
                    known[f["id"]] = known.get(f["id"], 0) + 1
        summary = dict(name=f"controlled-scheduler sweep for {pid}", bounded=True, bound=f"deterministic phases (all resource assignments on <= 3 nodes, flag key pairs, double references, single failing node" + (", all uniform-resource 4-node shapes" if escalate else "") + f") + all DAG shapes with <= {n_max} nodes x {sps} random attribute assignments per shape (seed {seed}); ALL completion orders and both iteration orders of a finished batch",
                       runs=r["runs"], worlds=r["worlds"], distinct=r["distinct"], violations=len(unknown), known_finding_hits=known, seconds=round(time.time() - t0, 2), samples=r["samples"][:2])
        return dict(summary=summary, violations=unknown, known=known)
    if kind == "custom":
        return cfg["fn"](pid, tier, seed, thorough)
    raise ValueError(kind)
