"""./check <property> [--tier quick|thorough]   |   ./check --replay <file>   |   ./check --rebaseline

Decides one property of /verif/properties.jsonl on /repo's *current working tree*:
  1. the functions the property depends on are extracted from /repo and verified against their sidecar contracts
     (pyvc); the obligations tagged with the property are the deciding ones;
  2. a refuted obligation is replayed on the real code by the controlled-scheduler harness (bounded search);
  3. parts of the property that no contract reaches are covered by the bounded stand-in (labelled, never "proved").
Exit: 0 held / 1 violation (VIOLATION line) / 2 undecided and no stand-in could run / 3 checker error.
"""
from __future__ import annotations

import argparse
import json
import os
import sys
import time
import traceback

HERE = os.path.dirname(os.path.dirname(os.path.abspath(__file__)))
sys.path.insert(0, HERE)
REPO = os.environ.get("VERIF_REPO", "/repo")


def load_kf():
    return json.load(open(os.path.join(HERE, "known_findings.json")))["findings"]


def open_findings(pid):
    return [f for f in load_kf() if f["status"] == "open" and f["property"] == pid]


def kf_of_obligation(name, pid):
    for f in open_findings(pid):
        if any(p in name for p in f.get("obligation_patterns", [])):
            return f
    return None


def kf_of_message(msg, pid):
    for f in open_findings(pid):
        if f.get("harness_tag") and f["harness_tag"] in msg:
            return f
    return None


def write_json(path, obj):
    os.makedirs(os.path.dirname(path), exist_ok=True)
    tmp = path + ".tmp"
    with open(tmp, "w") as fh:
        json.dump(obj, fh, indent=1, default=str)
    os.replace(tmp, path)


def main(argv=None):
    import warnings

    warnings.simplefilter("ignore")
    ap = argparse.ArgumentParser()
    ap.add_argument("pid", nargs="?")
    ap.add_argument("--tier", default=os.environ.get("VERIF_TIER", "quick"))
    ap.add_argument("--replay")
    ap.add_argument("--rebaseline", action="store_true")
    ap.add_argument("--no-evidence", action="store_true")
    a = ap.parse_args(argv)
    seed = int(os.environ.get("VERIF_SEED", "0"))
    if a.replay:
        from checklib.replay import replay_file

        return replay_file(a.replay)
    from checklib import props

    if a.rebaseline:
        return rebaseline()
    if a.pid not in props.PROPS:
        print(f"unknown or unclaimed property {a.pid}")
        return 3
    try:
        return check_property(a.pid, a.tier, seed, not a.no_evidence)
    except Exception:
        traceback.print_exc()
        print(f"CHECKER-ERROR property={a.pid}")
        return 3


def baseline_names():
    p = os.path.join(HERE, "baseline", "obligations.json")
    return json.load(open(p)) if os.path.exists(p) else {}


def unit_key(u):
    return f"{u[0]}:{u[1]}{list(u[2])}"


def rebaseline():
    from checklib import props
    from contracts.registry import BUDGETS, GROUPS
    from pyvc.runner import verify_units

    units = []
    for g in GROUPS.values():
        for u in g:
            if u not in units:
                units.append(u)
    rep = verify_units(units, BUDGETS)
    out = {}
    for u, r in rep.items():
        if r["error"]:
            print("ERROR", u, r["error"])
            return 3
        out[unit_key(u)] = sorted({x["name"] for x in r["results"] if x["verdict"] == "discharged" and x["kind"] != "cover"})
    write_json(os.path.join(HERE, "baseline", "obligations.json"), out)
    # the module-level functions that exist today: a NEW module-level helper called by a function under contract is not
    # run natively (it could touch the real module state behind the contract's model) - the caller becomes undecided
    import ast
    import importlib

    mods = {}
    for mod_, name_, args_ in units:
        c_ = getattr(importlib.import_module(mod_), name_)(*args_)
        if c_.module not in mods:
            tree = ast.parse(open(os.path.join(REPO, *c_.module.split(".")) + ".py").read())
            mods[c_.module] = sorted(n.name for n in tree.body if isinstance(n, (ast.FunctionDef, ast.AsyncFunctionDef)))
    write_json(os.path.join(HERE, "baseline", "module_functions.json"), mods)
    print("baseline written:", sum(len(v) for v in out.values()), "obligation names in", len(out), "functions")
    return 0


def check_property(pid, tier, seed, write_evidence=True):
    from checklib import props
    from contracts.registry import BUDGETS, GROUPS
    from pyvc.runner import verify_units

    t0 = time.time()
    P = props.PROPS[pid]
    units = []
    for g in P["groups"]:
        for u in GROUPS[g]:
            if u not in units:
                units.append(u)
    budgets = dict(BUDGETS)
    if tier == "thorough":
        os.environ.setdefault("VERIF_CROSS_SAMPLE", "3")
        import pyvc.runner as _rn

        _rn.CROSS_SAMPLE = int(os.environ["VERIF_CROSS_SAMPLE"])
    rep = verify_units(units, budgets) if units else {}
    base = baseline_names()

    deciding, covers, errors = [], [], []
    fn_rows = []
    for u, r in rep.items():
        mine = [x for x in r["results"] if pid in x["serves"]]
        cov = [x for x in r["results"] if x["kind"] == "cover"]
        fn_rows.append(dict(function=f"{u[1]}{list(u[2]) if u[2] else ''}", paths=len(r["paths"]), obligations_total=len([x for x in r["results"] if x["kind"] != "cover"]),
                            obligations_for_property=len(mine), src_sha=r.get("src_hash"), error=r["error"]))
        if r["error"]:
            errors.append((u, r["error"]))
        deciding += [dict(x, unit=unit_key(u)) for x in mine]
        covers += cov
        # expected obligation names that disappeared
        exp = set(base.get(unit_key(u), []))
        got = {x["name"] for x in r["results"]}
        missing = sorted(n for n in exp - got)
        if missing and not r["error"]:
            fn_rows[-1]["missing_obligations"] = missing[:20]

    discharged = [x for x in deciding if x["verdict"] == "discharged"]
    bad = [x for x in deciding if x["verdict"] != "discharged"]
    kf_hits, refuted, undecided = {}, {}, {}
    for x in bad:
        f = kf_of_obligation(x["name"], pid)
        if f is not None:
            kf_hits.setdefault(f["id"], []).append(x)
        elif x["verdict"] == "refuted":
            refuted.setdefault(x["name"], []).append(x)
        else:
            undecided.setdefault(x["name"], []).append(x)

    lines, violations = [], []
    standins = []
    pre_run = {}
    if "differential" in P.get("bounded", []):
        # checker assumption first: where the rewritten body does not behave like the original on concrete inputs, the
        # deductive verdicts for the current shape of the code are not trusted -> undecided, the stand-ins decide
        from checklib.bounded import BOUNDED as _B

        tb0 = time.time()
        br = _B["differential"](seed, thorough=(tier == "thorough"))
        pre_run["differential"] = (br, round(time.time() - tb0, 2))
        for dv in br.get("divergences", [])[:3]:
            errors.append((("contracts.differential", "RewriteDifferential", ()), "checker assumption refuted for the current code shape (verdicts not trusted): " + "; ".join(dv.get("violations", []))[:300]))
    need_harness = bool(refuted or undecided or errors) or P.get("standin_always", False) or bool(open_findings(pid))
    hres = None
    if P.get("harness") and need_harness:
        from checklib.standin import run_standin

        # a scheduler function that is undecided (contract cannot bind / unsupported) leaves the stand-in as the only line
        # of defence: it then also runs its escalation phase
        esc = any("scheduler" in u[0] or "digraph_sched" in u[0] for u, _ in errors)
        hres = run_standin(pid, P["harness"], tier, seed, thorough=(tier == "thorough"), escalate=esc)
        standins.append(hres["summary"])
    elif P.get("harness") and tier == "thorough":
        from checklib.standin import run_standin

        hres = run_standin(pid, P["harness"], tier, seed, thorough=True)
        standins.append(hres["summary"])
    extra = []
    from checklib.bounded import BOUNDED

    for bname in P.get("bounded", []):
        tb0 = time.time()
        # an obligation that no longer proves (undecided) or a function the contract cannot bind to is never a violation by
        # itself; the bounded stand-ins of the property then run at their thorough size
        if bname in pre_run:
            br, secs_ = pre_run[bname]
            extra.append(dict(name=bname, bounded=True, bound=br["bound"], runs=br["cases"], violations=[], divergences=len(br.get("divergences", [])), skipped_functions=br.get("skipped", []), known={}, seconds=secs_, samples=[]))
            continue
        br = BOUNDED[bname](seed, thorough=(tier == "thorough" or bool(undecided) or bool(errors)))
        # a bounded check may serve several properties: keep the violations tagged for this one (untagged: all)
        mine = []
        for v_ in br["violations"]:
            msgs = [m for m in v_.get("violations", []) if not m.startswith("[C") or m.startswith(f"[{pid}]")]
            if msgs:
                mine.append(dict(v_, violations=msgs, bounded=bname, kind="bounded", seed=seed))
        extra.append(dict(name=bname, bounded=True, bound=br["bound"], runs=br["cases"], violations=mine, known=br.get("known", {}), seconds=round(time.time() - tb0, 2), samples=br.get("samples", [])[:1]))
    witnessed = {}
    if open_findings(pid):
        from harness.known import WITNESS

        for f in open_findings(pid):
            w_ = WITNESS.get(f["id"])
            if w_ is not None:
                try:
                    witnessed[f["id"]] = bool(w_())
                except Exception:  # noqa: BLE001
                    witnessed[f["id"]] = True

    # ---- known findings: print only while they still reproduce
    for f in open_findings(pid):
        hit = bool(kf_hits.get(f["id"]))
        hh = hres and any(f["id"] in k for k in hres.get("known", {}))
        xh = any(f["id"] in er.get("known", {}) for er in extra)
        if hit or hh or xh or witnessed.get(f["id"]):
            lines.append(f"KNOWN-FINDING: property={pid} {f['id']}: {f['what']}")

    # ---- violations
    exit_code = 0
    os.makedirs(os.path.join(HERE, "replays"), exist_ok=True)
    harness_found = list((hres or {}).get("violations", []))
    # a failing input found on the real code by a bounded stand-in of this property is the replay of a refuted obligation
    harness_found += [v for er in extra for v in er.get("violations", [])[:1]]
    for name, xs in refuted.items():
        x = xs[0]
        rp = os.path.join(HERE, "replays", f"{pid}-{safe(name)}.json")
        doc = dict(property=pid, obligation=name, function=x["fn"], path=x["path"], verdict=x["verdict"], backend=x["backend"], solver_model=x.get("model", ""),
                   paths_failing=len(xs), repo=REPO, note="finite-scope counter-model of the verification condition generated from the current source")
        if harness_found:
            doc["failing_input"] = harness_found[0]
            write_json(rp, doc)
            lines.append(f"VIOLATION property={pid} replay={rp}")
        else:
            doc["failing_input"] = None
            write_json(rp, doc)
            lines.append(f"VIOLATION property={pid} replay={rp} obligation={name} no-failing-input-found")
        violations.append(name)
        exit_code = 1
    if not refuted and (hres or {}).get("violations"):
        rp = os.path.join(HERE, "replays", f"{pid}-harness.json")
        write_json(rp, dict(property=pid, obligation=None, failing_input=hres["violations"][0], repo=REPO, note="found by the bounded stand-in on the real code"))
        lines.append(f"VIOLATION property={pid} replay={rp}")
        violations.append("harness")
        exit_code = 1
    for er in extra:
        for v in er.get("violations", [])[:1]:
            rp = os.path.join(HERE, "replays", f"{pid}-{safe(er['name'])}.json")
            write_json(rp, dict(property=pid, obligation=f"bounded stand-in '{er['name']}'", failing_input=v, other_failing_cases=len(er["violations"]) - 1, repo=REPO))
            lines.append(f"VIOLATION property={pid} replay={rp}")
            violations.append(er["name"])
            exit_code = 1
    if exit_code == 0 and (undecided or errors):
        # undecided is never a violation; the stand-in has run (or there is none)
        if not P.get("harness") and not P.get("bounded"):
            exit_code = 2

    cross = None
    if tier == "thorough":
        # second solver: a deterministic sample of the obligations z3 discharged is re-checked by cvc5 (queries with
        # lambda terms are skipped: cvc5 1.0.3 does not parse them); a disagreement is a checker error, never a verdict
        from concurrent.futures import ThreadPoolExecutor as _TPE

        from pyvc import solve as _solve

        texts = [x["smt2_cross"] for x in deciding if x.get("smt2_cross")][:400]
        if texts:
            with _TPE(max_workers=14) as ex_:
                outs = list(ex_.map(lambda t_: _solve.run_cvc5(t_, 20)[0], texts))
            cross = dict(second_solver="cvc5 1.0.3 --full-saturate-quant", sampled=len(texts), agree_unsat=outs.count("unsat"), unknown=outs.count("unknown"), disagree_sat=outs.count("sat"))
            if outs.count("sat"):
                print(f"CHECKER-ERROR property={pid}: cvc5 finds a model for an obligation z3 discharged ({outs.count('sat')} of {len(texts)} sampled)")
                return 3
    lemma_check = None
    if tier == "thorough" and any(g in ("scheduler", "digraph", "graphbuild", "subdag") for g in P["groups"]):
        # L1 / L2 (used as axiom instances by the scheduler, selection and description-branch proofs) are re-checked by Lean
        import shutil
        import subprocess

        tl = time.time()
        if shutil.which("lean"):
            r = subprocess.run(["lean", os.path.join(HERE, "lemmas", "graph_lemmas.lean")], capture_output=True, text=True, timeout=1200)
            lemma_check = dict(tool="lean 4 + Mathlib", file="lemmas/graph_lemmas.lean", ok=(r.returncode == 0), seconds=round(time.time() - tl, 1), output=(r.stdout + r.stderr)[-400:])
            if r.returncode != 0:
                print(f"CHECKER-ERROR property={pid}: the Lean re-check of lemmas/graph_lemmas.lean failed")
                return 3
        else:
            lemma_check = dict(tool="lean", ok=None, note="lean is not on PATH: lemmas L1 / L2 not re-checked in this run")
    wall = time.time() - t0
    n_dec = len(deciding) - sum(len(v) for v in kf_hits.values())
    proof_ok = not refuted and not undecided and not errors and n_dec > 0 and len(discharged) == n_dec
    if n_dec == 0 and not extra and not hres:
        print(f"CHECKER-ERROR property={pid}: zero obligations generated")
        return 3
    if units and n_dec == 0 and not errors:
        print(f"CHECKER-ERROR property={pid}: the contract groups {P['groups']} generated no obligation for this property")
        return 3
    backends = {}
    for x in deciding:
        backends[x["backend"]] = backends.get(x["backend"], 0) + 1
    samples = [dict(obligation=x["name"], function=x["fn"], path=x["path"], verdict=x["verdict"], backend=x["backend"], seconds=x["seconds"]) for x in (bad[:5] + discharged[:8])]
    cov_ok = len([c for c in covers if c["verdict"] == "discharged"])
    claim = P.get("claim", "proof")
    level = ("proof" if proof_ok else "other") if claim == "proof" else ("exploration" if claim == "exploration" else "other")
    bsamples = [dict(bounded_check=er["name"], case=sm) for er in extra for sm in er.get("samples", [])]
    ev = dict(
        property_id=pid, tier=tier, seed=seed, level=level,
        coverage=dict(
            obligations=n_dec, discharged=len(discharged),
            checker_cmd=f"./check {pid} --tier {tier}",
            trusted_base=P.get("trusted", []) + props.COMMON_TRUSTED,
            functions_under_contract=fn_rows,
            backends=backends, solver_seconds=round(sum(x["seconds"] for x in deciding), 2),
            known_finding_obligations={k: len(v) for k, v in kf_hits.items()},
            undischarged=[dict(obligation=n, verdict=xs[0]["verdict"], paths=len(xs)) for n, xs in list(refuted.items()) + list(undecided.items())],
            function_errors=[f"{u[1]}: {e}" for u, e in errors],
            vacuity=dict(covers=len(covers), covers_satisfiable_in_scope=cov_ok, note="a cover is the satisfiability (finite scope <= 4 nodes) of a path condition: loop invariant + precondition + path"),
            bounded_standins=standins + [dict({k: v for k, v in er.items() if k != "violations"}, violations=len(er["violations"])) for er in extra],
            samples=samples + bsamples[:3],
            claim=claim,
            lemmas=lemma_check,
            cross_check=cross,
            explanation=P.get("explanation", "") + " " + ("all deciding obligations discharged" if proof_ok else "not every deciding obligation is discharged (see undischarged / function_errors); bounded stand-in results are listed separately and are not proof"),
            evaluations=max(1, n_dec + sum(s.get("runs", 0) for s in standins) + sum(er["runs"] for er in extra)), distinct_nontrivial=max(2, len({x["name"] for x in deciding})),
            rule="one evaluation = one clause-level proof obligation (path condition => clause) generated from the current source, or one controlled run of the real scheduler in the stand-in; distinct = distinct obligation names",
        ),
        assumptions=P.get("assumptions", []) + props.COMMON_ASSUMPTIONS,
        wall_s=round(wall, 2), violations=len(violations),
    )
    if write_evidence:
        write_json(os.path.join(HERE, "evidence", f"{pid}.json"), ev)
    for ln in lines:
        print(ln)
    print(f"{pid}: {len(discharged)}/{n_dec} deciding obligations discharged over {len(units)} functions; known-finding obligations {sum(len(v) for v in kf_hits.values())}; "
          f"refuted {len(refuted)}; undecided {len(undecided)}; function errors {len(errors)}; level={ev['level']}; {round(wall, 1)} s")
    for u, e in errors:
        print(f"  UNDECIDED {u[1]}: {e.splitlines()[0][:200]}")
    for n in undecided:
        print(f"  UNDECIDED obligation {n}")
    return exit_code


def safe(s):
    return "".join(c if c.isalnum() or c in "._-" else "_" for c in s)[:120]


if __name__ == "__main__":
    sys.exit(main())
