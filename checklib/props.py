"""Per-property configuration of ./check: which contract groups decide it (deductive part), which bounded stand-ins
accompany it (always labelled bounded), what is assumed."""

COMMON_TRUSTED = [
    "CPython 3.12 executes the mechanically rewritten body (pyvc/rewrite.py rules R1-R11) as it executes the original (tested, not proved: harness/differential.py compares rewritten and original bodies of 17 functions on concrete inputs)",
    "z3 5.1 (and cvc5 1.0.3 as fall-back) are sound",
    "pyvc engine: symbolic proxies, loop-cut rule, finite-scope refutation (a finite model is a model)",
]
COMMON_ASSUMPTIONS = [
    "string-level facts about generated ids are ASSUMED in the deductive part (ids are an uninterpreted sort): make_axn_id is injective in the argument slot, _lazy_xn_id / count_occurrences give a fresh id per call site, prefixing by the enclosing DAG names is injective; they are exercised only by the bounded program-level stand-ins",
    "contracts and invariants say what the property says (each top-level clause is named after the property sentence it encodes)",
    "node functions terminate and do not touch tawazi internals",
    "Python ints are mathematical integers (exact); no floating point is involved",
    "summary contracts used at call sites (async_execute, run_subgraph, extend_results_with_args, get_return_values, extend_graph_with_debug_nodes, make_subgraph ...) are the post-conditions proved for those functions in their own unit; a function listed under function_errors is NOT proved and its summary is then an assumption",
]
SCHED_TRUSTED = [
    "networkx.DiGraph primitives used by the verified functions (in_degree, out_degree, successors, predecessors, remove_node, remove_nodes_from, subgraph, copy, __len__, __iter__, __contains__, dfs_tree, ancestors, descendants) per pyvc/lib.py",
    "concurrent.futures.wait / asyncio.wait: return a partition (done, not_done) of the given set, done non-empty if the set is non-empty, not_done empty for ALL_COMPLETED",
    "ThreadPoolExecutor.submit / asyncio.ensure_future return a fresh future; Future.result() returns or re-raises the callable's exception",
    "lemma L1 (a non-empty finite node set has a rank-minimal element) and L2 (reachability in successor- / predecessor-closed sub-graphs), machine-checked in lemmas/graph_lemmas.lean (Lean 4 + Mathlib, re-checked in the thorough tier; the transcription Lean statement -> SMT axiom instance is by hand); L3 (a sum over a finite set does not depend on the enumeration order)",
    "for-loop rule: a loop over n distinct elements runs n iterations, in an arbitrary order",
    "copy.copy / copy.deepcopy: equal, unshared; functools.reduce = left fold; pickle round trip; collections.Counter(seq).items() enumerates each distinct element of seq once with its number of occurrences (> 1 iff it occurs at two different indices) - used by detect_duplicates",
]
SCHED_ASSUMPTIONS = [
    "bridge between scheduler-observed state and real time: a pooled node's function runs inside [its submit/ensure_future call, the wait that reports it done] (DESIGN 3.4)",
    "rely/guarantee: workers write only results[own id] / profiles[own id]; a future that returns normally has written results[id]",
    "precondition wf_exec of async_execute (graph nodes are keys of exec_nodes, dependencies inside the graph are edges, acyclic, max_concurrency >= 1); P1/P4/P5 are proved at the call sites (contracts/dagproto.py); P2 (every reference is an edge) and P3 (acyclic) are the post-condition of DiGraphEx.from_exec_nodes (contracts/graphbuild.py) for the DAG's graph, and the derived graphs (deepcopy, make_subgraph, extend_graph_with_debug_nodes) are induced sub-graphs of it (same edge relation E by the trusted networkx contracts)",
    "'ready' and 'in flight' are the scheduler's knowledge state: a node that finished but has not been observed by a wait still counts as in flight",
]
SW = dict(kind="sched")


def P_(groups, bounded=(), harness=None, trusted=SCHED_TRUSTED, assumptions=SCHED_ASSUMPTIONS, claim="proof", explanation=""):
    return dict(groups=list(groups), bounded=list(bounded), harness=harness, trusted=list(trusted), assumptions=list(assumptions), standin_always=True, claim=claim, explanation=explanation)


PROPS = {
    "C01": P_(["values", "dagproto", "nodeexec", "nodebuild", "retwrap", "threads", "decorators"], ["programs", "programs_flat", "reference_matrix", "operator_table", "id_strings", "default_identity", "no_leak"], claim="other",
              explanation="Mixed: the value-level functions between the recorded node table and the returned value are proved against their contracts; that the recorded table is the meaning of the describing function (tracing) is only covered by the bounded program-level stand-in."),
    "C02": P_(["scheduler", "values", "nodeexec", "graphbuild", "nodebuild", "digraph"], ["reference_matrix", "graph_build", "selection", "compose", "conformance", "differential"], dict(SW)),
    "C03": P_(["scheduler", "values", "digraph", "dagproto", "graphbuild", "nodebuild", "subdag"], ["programs_flat", "selection", "selection_debug", "setup_histories", "graph_build", "reference_matrix", "id_strings"], dict(SW, active=True)),
    "C04": P_(["scheduler", "values", "dagproto", "dagadmin", "decorators"], ["config"], dict(SW)),
    "C05": P_(["scheduler", "nodeexec", "decorators"], ["config"], dict(SW)),
    "C06": P_(["scheduler", "digraph", "dagproto", "graphbuild"], ["config", "graph_build", "priority_table", "conformance"], dict(SW)),
    "C07": P_(["digraph", "dagproto", "nodeexec", "dagadmin", "graphbuild"], ["priority_table", "config", "graph_build", "differential", "conformance"]),
    "C08": P_(["scheduler", "dagproto", "dagadmin", "graphbuild"], ["config", "graph_build"], dict(SW)),
    "C09": P_(["scheduler", "values", "graphbuild"], ["graph_build", "failure_recovery", "conformance"], dict(SW, fail=True, active=True)),
    "C10": P_(["scheduler", "values", "graphbuild", "nodebuild", "subdag"], ["programs", "reference_matrix"], dict(SW, active=True)),
    "C11": P_(["dagproto", "digraph", "values", "dagadmin", "graphbuild", "nodebuild", "decorators"], ["setup_histories", "build_validation", "graph_build"]),
    "C12": P_(["digraph", "dagproto", "values", "dagadmin", "graphbuild"], ["selection", "graph_build", "conformance", "differential"]),
    "C13": P_(["digraph", "dagproto", "dagadmin", "graphbuild", "nodebuild", "decorators"], ["selection_debug", "build_validation", "graph_build", "conformance", "differential"]),
    "C14": P_(["scheduler", "values", "dagproto", "nodeexec"], ["profile"], dict(SW, fail=True)),
    "C15": P_(["dagproto", "values", "digraph", "dagadmin", "subdag"], ["no_leak", "failure_recovery", "selection", "compose", "config", "conformance"]),
    "C16": P_(["threads", "dagproto", "values", "nodebuild", "subdag", "decorators"], ["threads"], claim="other",
              explanation="Mixed: the ownership guards (who may take the description branch, lock discipline of threadsafe_make_dag, frames of the run path) are proved; LazyExecNode.__call__ and real interleavings are covered by the bounded thread stand-in only."),
    "C17": P_(["scheduler", "values", "dagproto"], ["async", "programs_flat"], dict(SW)),
    "C18": P_(["dagproto", "dagadmin"], ["cache"]),
    "C19": P_(["digraph", "compose", "graphbuild", "dagadmin"], ["compose", "conformance"], claim="other",
              explanation="Mixed: compose() and its recursive closure _add_missing_deps are proved against contracts taken from the property (what is copied = what the outputs need, stopping at the inputs; every positional / keyword / activation reference to an input is rewritten to the new argument holder with its key path and no other reference changes; every reference of a copied node is a key of the new table; inputs / outputs / results handed to the new DAG; the original untouched). Assumed there: the holder ids made by make_axn_id are fresh (string-level), the input aliases are distinct nodes. The VALUE computed by the composed DAG then follows from C01's contracts; it is compared with 'substitute the inputs in the original description' only by the bounded compose stand-in. One known finding (KF-C19-overlap)."),
    "C20": P_(["retwrap", "threads", "subdag", "nodebuild"], ["programs", "reference_matrix", "id_strings", "default_identity"], claim="other",
              explanation="Mixed: the description branch of DAG.__call__ (stubs for supplied arguments, copy of constants / defaults, re-creation of every inner node with prefixed references and key paths, activation rules, return shape, prefix stack), construct_subdag_arg_uxns, LazyExecNode.__call__, the make_* helpers and wrap_in_uxns are proved against contracts taken from the property; ids are an uninterpreted sort, so that prefixed ids / holder ids are fresh and never capture outer ids is ASSUMED there (string-level) and exercised only by the bounded program-level stand-ins (KF-C20-twice is the case where it is false)."),
}
