"""Per-property configuration of ./check: which contract groups decide it, which bounded stand-in accompanies it,
what is assumed."""

COMMON_TRUSTED = [
    "CPython 3.12 executes the mechanically rewritten body (pyvc/rewrite.py rules R1-R9) as it executes the original",
    "z3 5.1 (and cvc5 1.0.3 as fall-back) are sound",
    "pyvc engine: symbolic proxies, loop-cut rule, finite-scope refutation (a finite model is a model)",
]
COMMON_ASSUMPTIONS = [
    "contracts and invariants say what the property says (each top-level clause is named after the property sentence it encodes)",
    "node functions terminate and do not touch tawazi internals",
    "Python ints are mathematical integers (exact); no floating point is involved",
]

SCHED_TRUSTED = [
    "networkx.DiGraph primitives used by the verified functions (in_degree, successors, remove_node, remove_nodes_from, __len__, __iter__, __contains__) per pyvc/lib.py",
    "concurrent.futures.wait / asyncio.wait: return a partition (done, not_done) of the given set, done non-empty if the set is non-empty, not_done empty for ALL_COMPLETED",
    "ThreadPoolExecutor.submit / asyncio.ensure_future return a fresh future; Future.result() returns or re-raises the callable's exception",
    "lemma L1 (a non-empty finite node set has a rank-minimal element; Lean: lemmas/graph_lemmas.lean) instantiated at the loop head",
    "for-loop rule: a loop over n distinct elements runs n iterations",
]
SCHED_ASSUMPTIONS = [
    "bridge between scheduler-observed state and real time: a pooled node's function runs inside [its submit/ensure_future call, the wait that reports it done] (DESIGN 3.4)",
    "rely/guarantee: workers write only results[own id] / profiles[own id]; a future that returns normally has written results[id] (guarantee proved on ExecNode.execute, contracts/values.py)",
    "precondition wf_exec of async_execute (graph nodes are keys of exec_nodes, dependencies inside the graph are edges, acyclic, max_concurrency >= 1) is established by the callers (contracts of the DAG layer)",
    "'ready' and 'in flight' are the scheduler's knowledge state: a node that finished but has not been observed by a wait still counts as in flight",
]


def sched(extra_assumptions=(), **harness):
    h = dict(kind="sched")
    h.update(harness)
    return dict(groups=["scheduler"], harness=h, trusted=SCHED_TRUSTED, assumptions=SCHED_ASSUMPTIONS + list(extra_assumptions))


PROPS = {
    "C02": sched(),
    "C03": sched(active=True),
    "C04": sched(),
    "C05": sched(),
    "C06": sched(),
    "C08": sched(),
    "C09": sched(fail=True, active=True),
    "C10": sched(active=True),
    "C14": sched(fail=True),
}
