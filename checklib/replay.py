"""./check --replay <file>: re-run a recorded failing input on the real code of /repo's working tree."""
from __future__ import annotations

import json


def run_sched_witness(w, props, schedule=None, executor_kw=None):
    from harness.control import World
    from harness.explore import run_once

    nodes = []
    for n in w["nodes"]:
        n = dict(n)
        n["deps"] = [(d, list(k)) for d, k in n.get("deps", [])]
        if n.get("active"):
            n["active"] = (n["active"][0], list(n["active"][1]))
        nodes.append(n)
    world = World(nodes, max_concurrency=w.get("max_concurrency", 2))
    viol, ch, ctrl, outcome = run_once(world, schedule if schedule is not None else w.get("schedule", []), w.get("is_async", False), props, executor_kw=executor_kw)
    return viol


def replay_file(path):
    doc = json.load(open(path))
    pid = doc["property"]
    fi = doc.get("failing_input")
    print(f"replay of {path}: property={pid} obligation={doc.get('obligation')}")
    if not fi:
        print("no failing input was found for this obligation; the verifier's output follows")
        print((doc.get("solver_model") or "")[:4000])
        return 1
    kind = fi.get("kind", "sched")
    if kind == "sched":
        viol = run_sched_witness(dict(fi["world"], is_async=fi.get("is_async", False)), [pid], fi.get("schedule", []), fi.get("executor_kw"))
        msgs = viol.get(pid, [])
        for m in msgs:
            print("  ", m)
        print("REPRODUCED" if msgs else "not reproduced on the current tree")
        return 1 if msgs else 0
    if kind == "bounded":
        from checklib.bounded import BOUNDED

        r = BOUNDED[fi["bounded"]](int(fi.get("seed", 0)), thorough=False)
        hits = [v for v in r["violations"] if v.get("index") == fi.get("index")] or r["violations"]
        for v in hits[:3]:
            for m in v.get("violations", []):
                print("  ", m)
        print("REPRODUCED" if hits else "not reproduced on the current tree")
        return 1 if hits else 0
    if kind == "script":
        import subprocess, sys, os  # noqa: E401

        here = os.path.dirname(os.path.dirname(os.path.abspath(__file__)))
        r = subprocess.run([sys.executable, os.path.join(here, fi["script"])] + list(fi.get("args", [])), cwd=here)
        return 1 if r.returncode else 0
    print("unknown replay kind", kind)
    return 3
