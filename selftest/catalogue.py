"""Catalogue of property-breaking textual mutations (applied to a scratch copy of /repo, never to /repo itself).
Each entry: id, group(s) to run, file, old, new, properties that must be reported."""
H = "tawazi/_dag/helpers.py"
G = "tawazi/_dag/digraph.py"
MUTANTS = [
    dict(id="M01_indegree_ge1", groups="scheduler", file=G, old="if self.in_degree[new_root_node] == 1", new="if self.in_degree[new_root_node] >= 1", expect={"C02", "C03"}),
    dict(id="M02_no_runnable_remove", groups="scheduler", file=H, old="        runnable_xns_ids.remove(xn.id)\n", new="", expect={"C03"}),
    dict(id="M03_limit_gt", groups="scheduler", file=H, old="if running_threads() == max_concurrency or", new="if running_threads() > max_concurrency or", expect={"C04"}),
    dict(id="M04_seq_guard_or", groups="scheduler", file=H, old="if xn.is_sequential and running_threads() != 0:", new="if xn.is_sequential and len(conc_running) != 0:", expect={"C05"}),
    dict(id="M04b_seq_guard_no_continue", groups="scheduler", file=H, old="                FIRST_COMPLETED, graph, conc_futures, conc_done, conc_running, runnable_xns_ids\n            )\n            continue\n", new="                FIRST_COMPLETED, graph, conc_futures, conc_done, conc_running, runnable_xns_ids\n            )\n", expect={"C05", "C06"}),
    dict(id="M05_min_priority", groups="scheduler", file=H, old="highest_priority_id = max(runnable_xns_ids", new="highest_priority_id = min(runnable_xns_ids", expect={"C06"}),
    dict(id="M06_first_if_all_completed", groups="scheduler", file=H, old="async_done, async_running, runnable_xns_ids = await wait_for_finished_nodes_async(\n                FIRST_COMPLETED, graph, async_futures, async_done, async_running, runnable_xns_ids\n            )\n            logger.debug(\n                \"Waiting for ExecNodes threaded {}", new="async_done, async_running, runnable_xns_ids = await wait_for_finished_nodes_async(\n                ALL_COMPLETED, graph, async_futures, async_done, async_running, runnable_xns_ids\n            )\n            logger.debug(\n                \"Waiting for ExecNodes threaded {}", expect={"C08"}),
    dict(id="M07_no_wait_when_nothing_runnable", groups="scheduler", file=H, old="if running_threads() == max_concurrency or len(runnable_xns_ids) == 0:", new="if running_threads() == max_concurrency:", expect={"C09"}),
    dict(id="M08_no_None_for_deactivated", groups="scheduler", file=H, old="            results[xn.id] = None\n", new="", expect={"C10"}),
    dict(id="M09_no_prune_of_computed", groups="scheduler", file=H, old="    graph.remove_nodes_from([id_ for id_ in graph if id_ in results])\n", new="", expect={"C03", "C11"}),
    dict(id="M10_swallow_failure", groups="scheduler", file=H, old="        _ = futures[future_id].result()  # raise exception by calling the future\n        logger.debug(\"Remove ExecNode {} from the graph\", future_id)\n        runnable_xns_ids |= graph.remove_root_node(future_id)\n\n    return done, running, runnable_xns_ids\n\n\nasync def", new="        logger.debug(\"Remove ExecNode {} from the graph\", future_id)\n        runnable_xns_ids |= graph.remove_root_node(future_id)\n\n    return done, running, runnable_xns_ids\n\n\nasync def", expect={"C14"}),
    dict(id="M11_active_ignores_key", groups="scheduler", file=H, old="return bool(xn.active.result(results))", new="return bool(results[xn.active.id])", expect={"C10"}),
]

import glob, json, os
_HERE = os.path.dirname(os.path.dirname(os.path.abspath(__file__)))
ALLG = "scheduler,values,dagproto,threads,digraph"
for m in MUTANTS:
    m["groups"] = ALLG
SEEDED = []
for d in sorted(glob.glob(os.path.join(_HERE, "seeded", "C??_?"))):
    meta = json.load(open(os.path.join(d, "meta.json")))
    SEEDED.append(dict(id="S_" + os.path.basename(d), groups=ALLG, patch=os.path.join(d, "patch.diff"), expect={meta["property"]}, demo=os.path.join(d, "demo.py")))
MUTANTS = MUTANTS + SEEDED
