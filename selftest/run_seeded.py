#!/usr/bin/env python
"""Self-test of the registered checks against the seeded property-breaking changes: each patch is applied to a
scratch copy of /repo (never to /repo), `./check <property>` is run with VERIF_REPO pointing to the copy, the copy is
removed.  usage: run_seeded.py [filter ...] [--also C05,C12]   (developer / thorough tier tool)"""
import glob, json, os, shutil, subprocess, sys, tempfile, time
HERE = os.path.dirname(os.path.dirname(os.path.abspath(__file__)))
also = []
args = [a for a in sys.argv[1:]]
if "--also" in args:
    i = args.index("--also"); also = args[i + 1].split(","); args = args[:i] + args[i + 2:]
rows = []
for d in sorted(glob.glob(os.path.join(HERE, "seeded", "*"))):
    name = os.path.basename(d)
    if args and not any(a in name for a in args):
        continue
    meta = json.load(open(os.path.join(d, "meta.json")))
    tmp = tempfile.mkdtemp(prefix="seeded_")
    try:
        shutil.copytree("/repo/tawazi", os.path.join(tmp, "tawazi"))
        r = subprocess.run(["patch", "-p1", "-d", tmp, "-i", os.path.join(d, "patch.diff")], capture_output=True, text=True)
        if r.returncode:
            print(name, "PATCH-FAILED", r.stdout[-300:]); continue
        for pid in [meta["property"]] + also:
            t = time.time()
            r = subprocess.run([os.path.join(HERE, "check"), pid, "--no-evidence"], cwd=HERE, env=dict(os.environ, VERIF_REPO=tmp), capture_output=True, text=True)
            viol = [l for l in r.stdout.splitlines() if l.startswith("VIOLATION")]
            und = [l.strip() for l in r.stdout.splitlines() if "UNDECIDED" in l]
            verdict = "CAUGHT" if r.returncode == 1 and viol else ("undecided" if r.returncode == 2 else ("CRASH" if r.returncode not in (0, 1) else "missed"))
            tag = "" if pid == meta["property"] else "  (other property)"
            print(f"{name:10s} {pid} exit={r.returncode} {verdict:9s} {round(time.time()-t):4d}s violations={len(viol)} {('undecided: ' + '; '.join(und)[:160]) if und else ''}{tag}")
            for l in viol[:3]:
                print("      ", l[:220])
            if r.returncode not in (0, 1, 2):
                print(r.stdout[-800:], r.stderr[-800:])
            sys.stdout.flush()
    finally:
        shutil.rmtree(tmp, ignore_errors=True)
