#!/usr/bin/env python
"""Self-test for FALSE REFUTATIONS: every hunk of the behaviour-preserving patches (selftest/harmless/*.diff) is applied
ALONE to a scratch copy (small edits leave the contracts able to bind, unlike the whole patches); the hunk is kept only if
the library's own test suite still passes with it; the contract units of the functions whose source changed are run, and
any obligation refuted with the hunk but not on the unchanged tree is reported (a harmless edit must never be refuted;
undecided is fine).  usage: hunks.py [patch-filter ...]   (developer / thorough tier tool; exit 1 on a false refutation)"""
import ast, glob, importlib, os, re, shutil, subprocess, sys, tempfile
HERE = os.path.dirname(os.path.dirname(os.path.abspath(__file__)))
sys.path.insert(0, HERE)
PY = os.path.join(HERE, ".venv", "bin", "python")


def split(path):
    """-> [(file, header_lines, hunk_lines)]"""
    out, head, cur, f = [], [], None, None
    for line in open(path):
        if line.startswith("diff --git"):
            if cur:
                out.append((f, head, cur))
            head, cur = [line], None
        elif line.startswith(("index ", "--- ", "+++ ")) and cur is None:
            head.append(line)
            if line.startswith("+++ b/"):
                f = line[6:].strip()
        elif line.startswith("@@"):
            if cur:
                out.append((f, head, cur))
            cur = [line]
        elif cur is not None:
            cur.append(line)
    if cur:
        out.append((f, head, cur))
    return out


def functions(src):
    res = {}

    def walk(node, prefix):
        for ch in ast.iter_child_nodes(node):
            if isinstance(ch, (ast.FunctionDef, ast.AsyncFunctionDef)):
                q = prefix + ch.name
                res[q] = ast.dump(ch)
                walk(ch, q + ".<locals>.")
            elif isinstance(ch, ast.ClassDef):
                walk(ch, prefix + ch.name + ".")
            else:
                walk(ch, prefix)

    walk(ast.parse(src), "")
    return res


def units_for(module, quals):
    from contracts.registry import GROUPS

    found = []
    for g, us in GROUPS.items():
        for mod, name, args in us:
            o = getattr(importlib.import_module(mod), name)(*args)
            if o.module == module and any(o.qualname == q or q.startswith(o.qualname + ".") for q in quals):
                found.append(":".join([mod.split(".")[1], name] + list(args)))
    return sorted(set(found))


def refuted(units, repo):
    r = subprocess.run([PY, os.path.join(HERE, "tools", "rununit.py")] + units, env=dict(os.environ, VERIF_REPO=repo), capture_output=True, text=True, cwd=HERE, timeout=1500)
    names = set(re.findall(r"^\s+refuted\s+x\d+ (\S+)", r.stdout, re.M))
    errs = re.findall(r"^(\S+): error=(?!None)(.*?) paths=", r.stdout, re.M)
    return names, errs


bad = 0
base_cache = {}
for pf in sorted(glob.glob(os.path.join(HERE, "selftest", "harmless", "*.diff"))):
    if sys.argv[1:] and not any(a in os.path.basename(pf)[len("refactor_"):] for a in sys.argv[1:]):
        continue
    for k, (f, head, hunk) in enumerate(split(pf)):
        tmp = tempfile.mkdtemp(prefix="hunk_")
        try:
            shutil.copytree("/repo/tawazi", os.path.join(tmp, "tawazi"))
            shutil.copytree("/repo/tests", os.path.join(tmp, "tests"))
            for extra in ("pyproject.toml", "setup.cfg", "conftest.py"):
                if os.path.exists(os.path.join("/repo", extra)):
                    shutil.copy(os.path.join("/repo", extra), tmp)
            one = os.path.join(tmp, "one.diff")
            open(one, "w").write("".join(head) + "".join(hunk))
            before = open(os.path.join("/repo", f)).read()
            r = subprocess.run(["patch", "-p1", "-d", tmp, "-i", one, "--no-backup-if-mismatch"], capture_output=True, text=True)
            tag = f"{os.path.basename(pf)}#{k} {f} {hunk[0].strip()[:40]}"
            if r.returncode:
                print(f"{tag}: does not apply alone - skipped"); continue
            after = open(os.path.join(tmp, f)).read()
            try:
                fb, fa = functions(before), functions(after)
            except SyntaxError:
                print(f"{tag}: not valid alone - skipped"); continue
            changed = sorted(q for q in set(fb) | set(fa) if fb.get(q) != fa.get(q))
            if not changed:
                print(f"{tag}: comments / docstrings only"); continue
            t = subprocess.run(["/venv/bin/python", "-m", "pytest", "-q", "-x", "-p", "no:cacheprovider", "--timeout=900", "tests"], cwd=tmp, env=dict(os.environ, PYTHONPATH=tmp), capture_output=True, text=True)
            if t.returncode:
                print(f"{tag}: suite fails with this hunk alone (depends on another hunk) - skipped"); continue
            module = f[:-3].replace("/", ".")
            units = units_for(module, changed)
            if not units:
                print(f"{tag}: {changed} not under contract"); continue
            key = tuple(units)
            if key not in base_cache:
                base_cache[key] = refuted(units, "/repo")[0]
            names, errs = refuted(units, tmp)
            new = sorted(names - base_cache[key])
            bad += bool(new)
            print(f"{tag}: changed {changed} units {units} -> " + ("FALSE-REFUTATION " + ", ".join(new) if new else "no new refutation") + (f"; undecided: {[e[0] for e in errs]}" if errs else ""))
            sys.stdout.flush()
        finally:
            shutil.rmtree(tmp, ignore_errors=True)
sys.exit(1 if bad else 0)
