#!/usr/bin/env python
"""Self-test against BEHAVIOUR-PRESERVING changes (selftest/harmless/*.diff: refactorings written by independent
sub-agents, each confirmed by the unedited test suite): every registered check must exit 0 on each of them (a contract that
can no longer bind makes its function undecided and the stand-ins decide; nothing may be reported).
usage: run_harmless.py [patch-filter ...] [--props C02,C09]   (developer / thorough tier tool)"""
import glob, os, shutil, subprocess, sys, tempfile, time
HERE = os.path.dirname(os.path.dirname(os.path.abspath(__file__)))
args = [a for a in sys.argv[1:]]
props = [f"C{i:02d}" for i in range(1, 21)]
if "--props" in args:
    i = args.index("--props"); props = args[i + 1].split(","); args = args[:i] + args[i + 2:]
bad = 0
for pf in sorted(glob.glob(os.path.join(HERE, "selftest", "harmless", "*.diff"))):
    name = os.path.basename(pf)
    if args and not any(a in name[len("refactor_"):] for a in args):
        continue
    tmp = tempfile.mkdtemp(prefix="harmless_")
    try:
        shutil.copytree("/repo/tawazi", os.path.join(tmp, "tawazi"))
        r = subprocess.run(["patch", "-p1", "-d", tmp, "-i", pf], capture_output=True, text=True)
        if r.returncode:
            print(name, "PATCH-FAILED", r.stdout[-300:]); continue
        for pid in props:
            t = time.time()
            r = subprocess.run([os.path.join(HERE, "check"), pid, "--no-evidence"], cwd=HERE, env=dict(os.environ, VERIF_REPO=tmp), capture_output=True, text=True)
            viol = [l for l in r.stdout.splitlines() if l.startswith("VIOLATION")]
            und = [l.strip() for l in r.stdout.splitlines() if "UNDECIDED" in l]
            verdict = "quiet" if r.returncode == 0 and not viol else "FALSE-ALARM" if r.returncode == 1 else f"exit-{r.returncode}"
            bad += verdict != "quiet"
            print(f"{name:22s} {pid} exit={r.returncode} {verdict:11s} {round(time.time()-t):4d}s {('undecided: ' + '; '.join(und)[:200]) if und else ''}")
            for l in viol[:3]:
                print("      ", l[:220])
            if r.returncode not in (0, 1):
                print(r.stdout[-800:], r.stderr[-800:])
            sys.stdout.flush()
    finally:
        shutil.rmtree(tmp, ignore_errors=True)
sys.exit(1 if bad else 0)
