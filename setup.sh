#!/bin/sh
# Builds /verif/.venv offline: Python 3.12 (same interpreter as /venv, where the repo's deps live) + z3-solver,
# cvc5, jsonschema from the offline wheelhouse, with a .pth that adds /venv's site-packages (networkx, loguru, ...).
set -e
cd "$(dirname "$0")"
if [ -x .venv/bin/python ] && .venv/bin/python -c "import z3, jsonschema, networkx" 2>/dev/null; then
  echo "setup: .venv already usable"; exit 0
fi
rm -rf .venv
/venv/bin/python -m venv .venv
PIP_NO_INDEX=1 .venv/bin/pip install -q --no-index --find-links /opt/veriftools/wheels z3-solver cvc5 jsonschema
echo "import site; site.addsitedir('/venv/lib/python3.12/site-packages')" > .venv/lib/python3.12/site-packages/_repo_overlay.pth
.venv/bin/python -c "import z3, jsonschema, networkx; print('setup: ok, z3', z3.get_version_string())"
