"""harness.control -- runs the REAL tawazi scheduler on a finite description of a DAG with every completion order
under the harness's control (no /repo hook: `tawazi._dag.helpers.wait`, `.ThreadPoolExecutor` and `.asyncio` are
replaced in the harness process).  Used for (1) replaying a refuted obligation on the real code, (2) the bounded
stand-in checks, (3) replaying the known findings.  It never decides a property by itself at proof level.

Model of time: a pooled node's function runs when the controller *completes* its job, which is one legal point of
the interval [submit, the wait that reports it done]; monitors that speak about "in flight" use the interval.
"""
from __future__ import annotations

import asyncio as real_asyncio
import itertools
import os
import sys
import threading
from concurrent.futures import ALL_COMPLETED, FIRST_COMPLETED, Future

REPO = os.environ.get("VERIF_REPO", "/repo")
if sys.path[0] != REPO:
    sys.path.insert(0, REPO)

import logging  # noqa: E402

# failing nodes of the controlled runs leave asyncio tasks whose exception nobody retrieves: keep stderr readable
logging.getLogger("asyncio").setLevel(logging.CRITICAL)

import tawazi  # noqa: E402
from tawazi._dag import helpers as H  # noqa: E402
from tawazi._helpers import StrictDict  # noqa: E402
from tawazi.consts import Resource  # noqa: E402
from tawazi.node import ExecNode, UsageExecNode  # noqa: E402

assert os.path.realpath(tawazi.__file__).startswith(os.path.realpath(REPO)), tawazi.__file__


class Chooser:
    """enumerates all sequences of choices by decision replay"""

    def __init__(self, prefix=()):
        self.prefix = list(prefix)
        self.taken = []
        self.arity = []

    def choose(self, n, what=""):
        i = len(self.taken)
        c = self.prefix[i] if i < len(self.prefix) else 0
        if c >= n:
            c = n - 1
        self.taken.append(c)
        self.arity.append(n)
        return c

    def next_prefix(self):
        t, a = list(self.taken), list(self.arity)
        while t:
            if t[-1] + 1 < a[-1]:
                t[-1] += 1
                return t
            t.pop()
            a.pop()
        return None


class OrderedDone(set):
    """the `done` set returned by the controlled wait primitives: a real set whose ITERATION ORDER is a choice of the
    explorer (the order in which a Python set of futures is iterated is arbitrary; both orders of a batch are explored)"""

    def __init__(self, items):
        items = list(items)
        set.__init__(self, items)
        self._order = items

    def __iter__(self):
        return iter(self._order)


RUN_WALL_S = float(os.environ.get("VERIF_RUN_WALL_S", "10"))


class StopRun(BaseException):
    pass


class NodeFault(Exception):
    """the exception a failing node function raises"""


class Controller:
    def __init__(self, chooser, max_steps=400, subsets="all"):
        self.ch = chooser
        self.events = []
        self.jobs = {}  # node id -> job dict
        self.inflight = {"conc": {}, "async": {}}  # kind -> {future: node id}
        self.task_node = {}
        self.entered, self.exited, self.failed = [], [], []
        self.dispatched = []
        self.steps = 0
        self.max_steps = max_steps
        self.subsets = subsets
        self.sched_thread = None
        self.in_completion = False
        self.pool_sizes = []
        self.world = None

    # ---- events
    def ev(self, kind, **kw):
        self.steps += 1
        self.spin_count = 0
        if self.steps > self.max_steps:
            raise StopRun("step bound exceeded (no termination)")
        e = dict(kind=kind, n=len(self.events), **kw)
        self.events.append(e)
        return e

    def inflight_ids(self, kind=None):
        kinds = [kind] if kind else ["conc", "async"]
        return [nid for k in kinds for nid in self.inflight[k].values()]

    # ---- node function wrapper
    def node_entry(self, nid):
        inline = (threading.get_ident() == self.sched_thread) and not self.in_completion
        self.entered.append(nid)
        self.ev("enter", node=nid, inline=inline, thread=threading.get_ident(), inflight=list(self.inflight_ids()), running_now=[x for x in self.entered if x not in self.exited and x != nid])

    def node_exit(self, nid, ok):
        self.exited.append(nid)
        if not ok:
            self.failed.append(nid)
        self.ev("exit", node=nid, ok=ok)

    # ---- pool
    def make_executor_class(ctrl):
        class FakeExecutor:
            def __init__(self, max_workers=None, **kw):
                ctrl.pool_sizes.append(max_workers)
                ctrl.executor = self
                self.closed = False

            def __enter__(self):
                return self

            def __exit__(self, *a):
                self.closed = True
                ctrl.ev("pool_exit", inflight=list(ctrl.inflight_ids()))
                return False

            def shutdown(self, wait=True, **kw):
                self.closed = True
                ctrl.ev("pool_exit", inflight=list(ctrl.inflight_ids()))

            def submit(self, fn, *a, **k):
                fut = Future()
                nid = ctrl._node_of_callable(fn)
                job = dict(fut=fut, fn=fn, a=a, k=k, node=nid, done=False)
                ctrl.jobs[nid] = job
                import functools

                via_async = isinstance(fn, functools.partial)  # loop.run_in_executor(executor, partial(ctx.run, xn.execute, ...))
                job["via_async"] = via_async
                if not via_async:
                    ctrl.inflight["conc"][fut] = nid
                    ctrl.on_dispatch(nid, "submit")
                return fut

        return FakeExecutor

    _pending_async_submit = False

    def _node_of_callable(self, fn):
        f = fn
        if hasattr(f, "func") and hasattr(f, "args") and f.args:  # functools.partial(ctx.run, xn.execute, ...)
            f = f.args[0]
        return getattr(getattr(f, "__self__", None), "id", None)

    def on_dispatch(self, nid, how):
        self.dispatched.append(nid)
        self.ev("dispatch", node=nid, how=how, inflight_before=[x for x in self.inflight_ids() if x != nid], exited=list(self.exited), entered=list(self.entered),
                ready=self.world.ready_truth(self) if self.world else None)

    def complete(self, job):
        if job["done"]:
            return
        job["done"] = True
        self.in_completion = True
        try:
            try:
                r = job["fn"](*job["a"], **job["k"])
            except BaseException as e:  # noqa: BLE001  (TawaziBaseException derives from BaseException)
                if isinstance(e, StopRun):
                    raise
                job["fut"].set_exception(e)
            else:
                job["fut"].set_result(r)
        finally:
            self.in_completion = False

    def _options(self, ids, return_when):
        ids = sorted(ids)
        if return_when == ALL_COMPLETED:
            return [tuple(ids)]
        opts = [(i,) for i in ids]
        if self.subsets == "all":
            for r in range(2, len(ids) + 1):
                opts += list(itertools.combinations(ids, r))
        elif len(ids) > 1:
            opts.append(tuple(ids))
        return opts

    def _ordered(self, done, key):
        items = sorted(done, key=key)
        if self.ch.choose(2, "iteration order of the done batch"):
            items.reverse()
        return OrderedDone(items)

    # ---- concurrent.futures.wait
    def wait(self, running, return_when=ALL_COMPLETED, timeout=None):
        running = set(running)
        ids = {self.inflight["conc"].get(f) for f in running}
        self.ev("wait", wkind="conc", return_when=return_when, running=sorted(x for x in ids if x), inflight=list(self.inflight_ids()), inflight_kind=sorted(x for x in self.inflight["conc"].values() if x), exited=list(self.exited), entered=list(self.entered),
                ready=self.world.ready_truth(self) if self.world else None, blocking=bool(running) and timeout is None)
        if not running:
            return set(), set()
        by_id = {self.inflight["conc"][f]: f for f in running if f in self.inflight["conc"]}
        opts = self._options(by_id.keys(), return_when)
        if timeout is not None:
            opts = [()] + opts  # a wait with a timeout may come back with nothing finished (tried first)
        pick = opts[self.ch.choose(len(opts), "conc wait")]
        done = set()
        for nid in pick:
            self.complete(self.jobs[nid])
            f = by_id[nid]
            done.add(f)
            self.inflight["conc"].pop(f, None)
        self.ev("wait_return", wkind="conc", done=list(pick))
        return self._ordered(done, lambda f: by_id_inv[f]) if len(done) > 1 and (by_id_inv := {f: n for n, f in by_id.items()}) else done, running - done

    # ---- asyncio proxy
    def make_asyncio(ctrl):
        class AsyncioProxy:
            def __getattr__(self, name):
                return getattr(real_asyncio, name)

            def ensure_future(self, coro, **kw):
                nid = None
                fr = getattr(coro, "cr_frame", None)
                if fr is not None:
                    nid = ctrl._node_of_callable(fr.f_locals.get("func"))
                task = real_asyncio.ensure_future(coro, **kw)
                ctrl.task_node[task] = nid
                ctrl.inflight["async"][task] = nid
                ctrl.on_dispatch(nid, "ensure_future")
                return task

            async def wait(self, running, return_when=ALL_COMPLETED, timeout=None):
                running = set(running)
                ids = [ctrl.task_node.get(t) for t in running]
                ctrl.ev("wait", wkind="async", return_when=return_when, running=sorted(x for x in ids if x), inflight=list(ctrl.inflight_ids()), inflight_kind=sorted(x for x in ctrl.inflight["async"].values() if x), exited=list(ctrl.exited), entered=list(ctrl.entered),
                        ready=ctrl.world.ready_truth(ctrl) if ctrl.world else None, blocking=bool(running) and timeout is None)
                if not running:
                    return set(), set()
                # let the tasks reach their run_in_executor (which calls FakeExecutor.submit)
                ctrl._pending_async_submit = True
                try:
                    for _ in range(4):
                        await real_asyncio.sleep(0)
                finally:
                    ctrl._pending_async_submit = False
                spontaneous = {t for t in running if t.done()}
                if spontaneous:
                    done = spontaneous
                else:
                    by_id = {ctrl.task_node[t]: t for t in running}
                    opts = ctrl._options(by_id.keys(), return_when)
                    if timeout is not None:
                        opts = [()] + opts  # a wait with a timeout may come back with nothing finished
                    pick = opts[ctrl.ch.choose(len(opts), "async wait")]
                    done = set()
                    for nid in pick:
                        job = ctrl.jobs.get(nid)
                        if job is not None:
                            ctrl.complete(job)
                        done.add(by_id[nid])
                    for _ in range(6):
                        if all(t.done() for t in done):
                            break
                        await real_asyncio.sleep(0)
                    if not all(t.done() for t in done):
                        await real_asyncio.wait(done, return_when=ALL_COMPLETED)
                for t in done:
                    ctrl.inflight["async"].pop(t, None)
                ctrl.ev("wait_return", wkind="async", done=[ctrl.task_node.get(t) for t in done], spontaneous=bool(spontaneous))
                rest = running - set(done)
                if len(done) > 1:
                    done = ctrl._ordered(done, lambda t: ctrl.task_node.get(t) or "")
                return done, rest

        return AsyncioProxy()

    # ---- install / run
    def run(self, fn):
        """run fn() (which calls into tawazi) with the scheduler primitives replaced"""
        from tawazi._dag.digraph import DiGraphEx

        saved = (H.wait, H.ThreadPoolExecutor, H.asyncio, H.logger, H.wait_for_finished_nodes, H.wait_for_finished_nodes_async, DiGraphEx.__dict__.get("__len__"))
        H.wait = self.wait
        H.ThreadPoolExecutor = self.make_executor_class()
        H.asyncio = self.make_asyncio()
        # watchdog (C09): a scheduler that spins without reaching any controlled primitive (no dispatch, no blocking
        # wait, no node entry) is stopped: its loop necessarily goes through len(graph), the wait helpers or the logger
        ctrl = self
        self.spin_count = 0

        def tick():
            ctrl.spin_count += 1
            if ctrl.spin_count > 20000:
                raise StopRun("the scheduler spins without dispatching or waiting for anything (no progress)")

        class _Log:
            def __getattr__(self, name):
                def m(*a, **k):
                    tick()

                return m

        w_sync, w_async = H.wait_for_finished_nodes, H.wait_for_finished_nodes_async

        def wfn(*a, **k):
            tick()
            return w_sync(*a, **k)

        async def wfna(*a, **k):
            tick()
            return await w_async(*a, **k)

        import networkx as _nx

        def glen(g):
            tick()
            return _nx.DiGraph.__len__(g)

        H.logger, H.wait_for_finished_nodes, H.wait_for_finished_nodes_async = _Log(), wfn, wfna
        DiGraphEx.__len__ = glen
        self.sched_thread = threading.get_ident()
        # wall-clock watchdog (C09): a call that neither returns nor reaches a controlled primitive (a deadlock, e.g. an
        # event-loop wait for a task that nobody will ever complete) is stopped after RUN_WALL_S seconds
        import signal

        use_alarm = threading.current_thread() is threading.main_thread()

        def on_alarm(signum, frame):
            raise StopRun(f"the call did not return within {RUN_WALL_S} s of wall-clock time (deadlock)")

        if use_alarm:
            old_handler = signal.signal(signal.SIGALRM, on_alarm)
            signal.setitimer(signal.ITIMER_REAL, RUN_WALL_S)
        try:
            try:
                return ("return", fn())
            except StopRun as e:
                return ("nonterminating", str(e))
            except BaseException as e:  # noqa: BLE001
                return ("raise", e)
        finally:
            if use_alarm:
                signal.setitimer(signal.ITIMER_REAL, 0)
                signal.signal(signal.SIGALRM, old_handler)
            H.wait, H.ThreadPoolExecutor, H.asyncio, H.logger, H.wait_for_finished_nodes, H.wait_for_finished_nodes_async = saved[:6]
            if saved[6] is None:
                del DiGraphEx.__len__
            else:
                DiGraphEx.__len__ = saved[6]
            # cancel what is left
            for t in list(self.inflight["async"]):
                try:
                    t.cancel()
                except Exception:
                    pass


# ----------------------------------------------------------------------------------------------------------------
# finite description of a DAG -> real tawazi objects
# ----------------------------------------------------------------------------------------------------------------
RES = {"thread": Resource.thread, "async": Resource.async_thread, "main": Resource.main_thread}


class World:
    """nodes: list of dicts  {id, deps:[(id,key)], prio, seq, res, active:(id,key)|None, fails, setup, debug, flagval}
    A node returns {"id": id, "args": [...], "t": True, "f": False, 0: ..} style values so that key paths exist."""

    def __init__(self, nodes, max_concurrency=2, consts=None, inputs=(), returns=None, qualname="h"):
        self.nodes = {n["id"]: dict(n) for n in nodes}
        self.order = [n["id"] for n in nodes]
        self.max_concurrency = max_concurrency
        self.consts = dict(consts or {})
        self.inputs = list(inputs)
        self.returns = returns
        self.qualname = qualname
        self.ctrl = None
        self.calls = {}

    def describe(self):
        return dict(nodes=[self.nodes[i] for i in self.order], max_concurrency=self.max_concurrency, consts={k: repr(v) for k, v in self.consts.items()}, inputs=self.inputs)

    def value_of(self, nid, args, kwargs=None):
        n = self.nodes[nid]
        if "value" in n:
            return n["value"]
        v = {"id": nid, "args": list(args), "t": True, "f": False, "k": {"t": True, "f": False}}
        if kwargs:
            v["kw"] = dict(kwargs)
        return v

    def make_fn(self, nid):
        w = self

        def fn(*args, **kwargs):
            w.calls[nid] = w.calls.get(nid, 0) + 1
            c = w.ctrl
            if c is not None:
                c.node_entry(nid)
            ok = False
            try:
                if w.nodes[nid].get("fails"):
                    raise NodeFault(nid)
                v = w.value_of(nid, args, kwargs)
                ok = True
                return v
            finally:
                if c is not None:
                    c.node_exit(nid, ok)

        fn.__qualname__ = nid
        fn.__name__ = nid
        return fn

    def build_exec_nodes(self):
        xns = StrictDict()
        for nid in getattr(self, "insert_order", None) or self.order:
            n = self.nodes[nid]
            args = [UsageExecNode(d, list(k)) for d, k in n.get("deps", [])]
            kwargs = {name: UsageExecNode(d, list(k)) for name, (d, k) in n.get("kwdeps", {}).items()}
            act = n.get("active")
            xns[nid] = ExecNode(
                id_=nid, exec_function=self.make_fn(nid), priority=n.get("prio", 0), is_sequential=bool(n.get("seq", False)),
                debug=bool(n.get("debug", False)), setup=bool(n.get("setup", False)), resource=RES[n.get("res", "thread")],
                call_location=n.get("loc", f"harness.py:{self.order.index(nid) + 1}"), args=args, kwargs=kwargs,
                active=UsageExecNode(act[0], list(act[1])) if act else None, tag=n.get("tag"),
            )
        from tawazi.node import ArgExecNode

        for cid in list(self.consts) + [i for i in self.inputs if i not in self.consts]:
            if cid not in xns:
                xns[cid] = ArgExecNode(cid)
        return xns

    def build_dag(self, is_async=False):
        from tawazi._dag.dag import DAG, AsyncDAG

        xns = self.build_exec_nodes()
        results = StrictDict(self.consts)
        rets = self.returns if self.returns is not None else tuple(UsageExecNode(i) for i in self.order)
        cls = AsyncDAG if is_async else DAG
        return cls(qualname=self.qualname, results=results, exec_nodes=xns, input_uxns=[UsageExecNode(i) for i in self.inputs], return_uxns=rets, max_concurrency=self.max_concurrency)

    # ---- truth functions for the monitors (independent of tawazi's own bookkeeping)
    def all_deps(self, nid):
        n = self.nodes.get(nid)
        if n is None:
            return []
        d = [x for x, _ in n.get("deps", [])] + [x for x, _ in n.get("kwdeps", {}).values()]
        if n.get("active"):
            d.append(n["active"][0])
        return d

    def descendants(self, nid):
        out, stack = set(), [nid]
        while stack:
            c = stack.pop()
            for m in self.order:
                if c in self.all_deps(m) and m not in out:
                    out.add(m)
                    stack.append(m)
        return out

    def compound_priority(self, nid):
        return self.nodes[nid].get("prio", 0) + sum(self.nodes[d].get("prio", 0) for d in self.descendants(nid))

    selection = None  # set of node ids taking part in the execution (None: all)
    precomputed = ()  # ids whose result is given (setup done, cache)

    def participating(self):
        sel = set(self.order) if self.selection is None else set(self.selection)
        return sel - set(self.precomputed)

    def ready_truth(self, ctrl):
        part = self.participating()
        done = set(ctrl.exited) | set(getattr(ctrl, "skipped", []))
        out = []
        for nid in self.order:
            if nid not in part or nid in ctrl.dispatched or nid in ctrl.entered or nid in done:
                continue
            if all((d not in part) or (d in done and d not in ctrl.failed) for d in self.all_deps(nid)):
                out.append(nid)
        return out
