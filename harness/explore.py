"""harness.explore -- bounded exploration: small DAG descriptions x attribute assignments x ALL completion orders,
on the real scheduler.  Bounded stand-in / replay only (never counted as proved)."""
from __future__ import annotations

import asyncio as real_asyncio
import itertools
import json
import random

from harness.control import Chooser, Controller, World
from harness.monitors import check_run, reference

NAMES = "abcdefgh"


def run_once(world, prefix=(), is_async=False, props=(), subsets="all", args=(), executor_kw=None):
    ch = Chooser(prefix)
    ctrl = Controller(ch, subsets=subsets)
    world.ctrl = ctrl
    ctrl.world = world
    world.calls = {}
    dag = world.build_dag(is_async=is_async)
    val, status = reference(world, dict(zip(world.inputs, args)))

    def go():
        if executor_kw is not None:
            ex = dag.executor(**executor_kw)
            return real_asyncio.run(ex(*args)) if is_async else ex(*args)
        return real_asyncio.run(dag(*args)) if is_async else dag(*args)

    outcome = ctrl.run(go)
    if "__kf_index__" in status:
        # known finding KF-C10-index (indexing the None of a deactivated node): outside the monitors' domain
        return {p: [] for p in props}, ch, ctrl, ("kf-index", status["__kf_index__"])
    viol = check_run(world, ctrl, outcome, props, status, val)
    # value check (C01/C02: values received)
    if outcome[0] == "return" and ("C01" in props or "C02" in props) and executor_kw is None:
        got = outcome[1]
        exp = tuple(val.get(i) for i in world.order) if world.returns is None else None
        if exp is not None and got != exp:
            for p in ("C01", "C02"):
                if p in viol:
                    viol[p].append(f"returned {got!r}, sequential evaluation gives {exp!r}")
    return viol, ch, ctrl, outcome


def all_schedules(world, props, is_async=False, max_runs=2000, subsets="all", args=(), executor_kw=None):
    prefix = []
    runs = 0
    while prefix is not None and runs < max_runs:
        viol, ch, ctrl, outcome = run_once(world, prefix, is_async, props, subsets, args, executor_kw)
        runs += 1
        yield viol, ch.taken, ctrl, outcome
        prefix = ch.next_prefix()


def shapes(n):
    pairs = [(i, j) for i in range(n) for j in range(i + 1, n)]
    for r in range(len(pairs) + 1):
        for es in itertools.combinations(pairs, r):
            yield es


def make_world(n, edges, rnd, maxc=None, allow_fail=False, allow_active=False, resources=("thread", "async", "main"), seq_p=0.3):
    nodes = []
    for i in range(n):
        deps = [(NAMES[a], []) for a, b in edges if b == i]
        nd = dict(id=NAMES[i], deps=deps, prio=rnd.choice([0, 0, 1, 2, 3, -1]), seq=rnd.random() < seq_p, res=rnd.choice(resources))
        if allow_fail and rnd.random() < 0.25:
            nd["fails"] = True
        if allow_active and i > 0 and rnd.random() < 0.35:
            src = NAMES[rnd.randrange(0, i)]
            nd["active"] = (src, rnd.choice([["t"], ["f"], ["k", "t"], ["k", "f"], []]))
        nodes.append(nd)
    return World(nodes, max_concurrency=maxc if maxc is not None else rnd.choice([1, 2, 2, 3]))


def sweep(props, n_max=3, seed=0, samples_per_shape=2, max_runs_per_world=300, is_async_choices=(False, True), allow_fail=False, allow_active=False, resources=("thread", "async", "main"), stop_at_first=True, budget_runs=20000, escalate=False):
    """-> dict(runs=, worlds=, violations=[...], samples=[...])"""
    rnd = random.Random(seed)
    total_runs = worlds = 0
    found = []
    samples = []
    distinct = set()
    def candidate_worlds():
        # phase 1 (deterministic): every shape with <= 3 nodes x EVERY assignment of resources, limit 2, no sequential
        # node, equal priorities -- the mixes of thread / async-thread / main-thread nodes are not left to chance
        for n in range(2, min(n_max, 3) + 1):
            for es in shapes(n):
                for res in itertools.product(resources, repeat=n):
                    for maxc in (2, 1):
                        nodes = [dict(id=NAMES[i], deps=[(NAMES[a], []) for a, b in es if b == i], prio=0, seq=False, res=res[i]) for i in range(n)]
                        yield World(nodes, max_concurrency=maxc), False
        if allow_active:
            # phase 1b (deterministic): two nodes gated by (possibly different) parts of the SAME node's result, in
            # both priority orders -- activation is decided per reference (id AND key path), not per flag node
            keys = [["t"], ["f"], ["k", "t"], ["k", "f"], []]
            for k1 in keys:
                for k2 in keys:
                    for pb, pc in ((2, 1), (1, 2)):
                        nodes = [dict(id="a", deps=[], prio=0, seq=False, res="thread"),
                                 dict(id="b", deps=[], prio=pb, seq=False, res="thread", active=("a", list(k1))),
                                 dict(id="c", deps=[], prio=pc, seq=False, res="thread", active=("a", list(k2)))]
                        yield World(nodes, max_concurrency=1), False
        # phase 1c (deterministic): a consumer that references TWO different parts of one producer (and, in the second
        # family, a third node): an edge is per pair of nodes, a reference is per (node, key path)
        for res in (("thread",) * 3, ("async",) * 3):
            for other_first in (False, True):
                nodes = [dict(id="a", deps=[], prio=0, seq=False, res=res[0]), dict(id="b", deps=[], prio=0, seq=False, res=res[1]),
                         dict(id="c", deps=([("b", [])] if other_first else []) + [("a", ["t"]), ("a", ["k", "f"])] + ([] if other_first else [("b", [])]), prio=0, seq=False, res=res[2])]
                yield World(nodes, max_concurrency=2), False
        # phase 1c' (deterministic): the node that supplies the activation flag of c is ALSO an argument of c, next to another
        # dependency b: c may start only after BOTH have returned, whichever finishes first (one edge a -> c, two references)
        for res in ("thread", "async"):
            for flag_first in (True, False):
                for key in (["t"], []):
                    nodes = [dict(id="a", deps=[], prio=1 if flag_first else 0, seq=False, res=res), dict(id="b", deps=[], prio=0 if flag_first else 1, seq=False, res=res),
                             dict(id="c", deps=[("a", []), ("b", [])], prio=0, seq=False, res=res, active=("a", list(key)))]
                    yield World(nodes, max_concurrency=2), False
        if allow_fail:
            # phase 1d (deterministic): exactly one failing node, every position, uniform resources: a failure reported in
            # the same batch as a success must still fail the call
            for n in (2, 3):
                for es in shapes(n):
                    for bad in range(n):
                        for res in ("thread", "async"):
                            nodes = [dict(id=NAMES[i], deps=[(NAMES[a], []) for a, b in es if b == i], prio=0, seq=False, res=res, fails=(i == bad)) for i in range(n)]
                            yield World(nodes, max_concurrency=n), False
        # phase 1f (deterministic): two nodes (independent / chained) x every pair of resources x which of them is
        # sequential x both priority orders x limit 1 / 2, entered through a plain call AND through an executor whose
        # selection is the whole DAG (target = the leaves, root = the roots): the selected sub-graph must schedule like the DAG
        for es in shapes(2):
            for res in itertools.product(resources, repeat=2):
                for seq in ((True, False), (False, True), (True, True)):
                    for prio in ((1, 0), (0, 1)):
                        for maxc in (2, 1):
                            nodes = [dict(id=NAMES[i], deps=[(NAMES[a], []) for a, b in es if b == i], prio=prio[i], seq=seq[i], res=res[i]) for i in range(2)]
                            w = World(nodes, max_concurrency=maxc)
                            yield w, False
                            if maxc == 2:
                                leaves = [NAMES[i] for i in range(2) if not any(a == i for a, b in es)]
                                rts = [NAMES[i] for i in range(2) if not any(b == i for a, b in es)]
                                yield World(nodes, max_concurrency=maxc), False, dict(target_nodes=leaves)
                                yield World(nodes, max_concurrency=maxc), False, dict(root_nodes=rts)
        if escalate:
            # phase 1e (only when a scheduler function is UNDECIDED, i.e. the stand-in is the only line of defence):
            # every 4-node shape with uniform resources, limit 3 -- batches of two finished nodes next to a running one
            for es in shapes(4):
                for res in ("thread", "async"):
                    nodes = [dict(id=NAMES[i], deps=[(NAMES[a], []) for a, b in es if b == i], prio=0, seq=False, res=res) for i in range(4)]
                    yield World(nodes, max_concurrency=3), False
        # phase 2 (sampled with the seed): random priorities, sequential flags, limits, failing / deactivated nodes
        for n in range(1, n_max + 1):
            for es in shapes(n):
                for s in range(samples_per_shape):
                    yield make_world(n, es, rnd, allow_fail=allow_fail, allow_active=allow_active, resources=resources), rnd.choice(list(is_async_choices))

    if True:
        if True:
            for cand in candidate_worlds():
                w, is_async = cand[0], cand[1]
                ekw = cand[2] if len(cand) > 2 else None
                worlds += 1
                for viol, taken, ctrl, outcome in all_schedules(w, props, is_async, max_runs_per_world, executor_kw=ekw):
                    total_runs += 1
                    distinct.add((json.dumps(w.describe(), sort_keys=True, default=str), tuple(taken), is_async))
                    if len(samples) < 3 and len(taken) >= 2:
                        samples.append(dict(world=w.describe(), is_async=is_async, schedule=list(taken), outcome=outcome[0], dispatch_order=[e["node"] for e in ctrl.events if e["kind"] == "dispatch" or (e["kind"] == "enter" and e["inline"])]))
                    bad = {p: v for p, v in viol.items() if v}
                    if bad:
                        found.append(dict(world=w.describe(), is_async=is_async, schedule=list(taken), violations=bad, outcome=outcome[0], **({"executor_kw": ekw} if ekw else {})))
                        if stop_at_first:
                            return dict(runs=total_runs, worlds=worlds, violations=found, samples=samples, distinct=len(distinct))
                    if total_runs >= budget_runs:
                        return dict(runs=total_runs, worlds=worlds, violations=found, samples=samples, distinct=len(distinct), truncated=True)
    return dict(runs=total_runs, worlds=worlds, violations=found, samples=samples, distinct=len(distinct))
