"""harness.histories -- bounded stand-ins on the real DAG / executor API for the properties that speak about
selections, setup state, histories, caches and composition (C11 C12 C13 C15 C18 C19).  Every case is a small random
DAG description (World) + a random history; the oracle is computed independently from the description.
Each check returns a list of violations; a violation carries (seed, index) so that it can be replayed exactly."""
from __future__ import annotations

import copy
import os
import random
import tempfile

from harness.control import Chooser, Controller, World, NodeFault
from harness.explore import NAMES, shapes
from harness.monitors import reference

import tawazi
from tawazi.config import cfg


def run_controlled(fn, world):
    ctrl = Controller(Chooser(()))
    world.ctrl = ctrl
    ctrl.world = world
    out = ctrl.run(fn)
    world.ctrl = None
    return out, ctrl


SAMPLES = []


def rand_world(rnd, n, setup_p=0.0, debug_p=0.0, fail_p=0.0, tags=False, maxc=2):
    w = _rand_world(rnd, n, setup_p, debug_p, fail_p, tags, maxc)
    if len(SAMPLES) < 2:
        SAMPLES.append(w.describe())
    return w


def _rand_world(rnd, n, setup_p=0.0, debug_p=0.0, fail_p=0.0, tags=False, maxc=2):
    es = rnd.choice(list(shapes(n)))
    nodes = []
    for i in range(n):
        # a dependency may be used through a key path (r["t"], r["k"]["f"]): every value is a dict that has these keys
        deps = [(NAMES[a], rnd.choice([[], [], [], ["t"], ["k", "f"]])) for a, b in es if b == i]
        nd = dict(id=NAMES[i], deps=deps, prio=rnd.choice([0, 1, 2]), seq=rnd.random() < 0.15, res=rnd.choice(["thread", "thread", "main", "async"]))
        nodes.append(nd)
    # setup nodes: only nodes all of whose deps are setup nodes
    for i, nd in enumerate(nodes):
        if rnd.random() < setup_p and all(next(m for m in nodes if m["id"] == d).get("setup") for d, _ in nd["deps"]):
            nd["setup"] = True
            if rnd.random() < 0.3:
                nd["value"] = None  # a side-effect-only setup node
    # ordinary nodes may return falsy values (0, False, "", (), None): a value is a value, whatever its truthiness
    for nd in nodes:
        if "value" not in nd and rnd.random() < 0.12:
            nd["value"] = rnd.choice([0, False, "", (), None])
    # (the None of a side-effect-only node has no parts: it is only used whole)
    whole = {nd["id"] for nd in nodes if "value" in nd}
    for nd in nodes:
        nd["deps"] = [(d, [] if d in whole else k) for d, k in nd["deps"]]
    # debug nodes: a node all of whose dependents are debug nodes (processed in reverse order)
    for i in range(n - 1, -1, -1):
        nd = nodes[i]
        dependents = [m for m in nodes if any(d == nd["id"] for d, _ in m["deps"])]
        if not nd.get("setup") and rnd.random() < debug_p and all(m.get("debug") for m in dependents):
            nd["debug"] = True
    for nd in nodes:
        if rnd.random() < fail_p and not nd.get("setup"):
            nd["fails"] = True
        if tags and rnd.random() < 0.4:
            nd["tag"] = rnd.choice(["t1", "t2"])
    return World(nodes, max_concurrency=maxc)


def anc_closure(world, ids):
    out, stack = set(ids), list(ids)
    while stack:
        c = stack.pop()
        for d in world.all_deps(c):
            if d in world.nodes and d not in out:
                out.add(d)
                stack.append(d)
    return out


def desc_closure(world, ids):
    out = set(ids)
    for i in ids:
        out |= world.descendants(i)
    return out


def roots(world):
    return [n for n in world.order if not [d for d in world.all_deps(n) if d in world.nodes]]


def closed_form(world, R, X, T):
    """C12's documented closure, computed from the description only"""
    A = desc_closure(world, R) if R is not None else set(world.order)
    B = A - (desc_closure(world, X) if X is not None else set())
    if T is None:
        return B
    return {a for a in B if any(t in desc_closure(world, [a]) for t in T)}


def alias(rnd, world, i):
    """one of the alias forms for node i: id, ExecNode reference (filled in later), tag if unique"""
    return i


# =====================================================================================================================
def check_selection(seed, n_cases, n_max=4, debug=False):
    """C12 (and C13 when debug nodes are generated): executor(target, exclude, root) runs exactly the closure"""
    rnd = random.Random(seed)
    viol, cases = [], 0
    if not debug:
        # deterministic: a chain a -> b -> c (+ an independent d) stored in EVERY order in the node table; the closure of
        # root / excluded nodes is a reachability, whatever the storage order (a composed DAG appends its inputs last)
        import itertools

        for perm in itertools.permutations(["a", "b", "c", "d"]):
            for R, X in ((["a"], None), (None, ["a"]), (["a", "d"], ["b"])):
                cw = World([dict(id="a", deps=[], prio=0, seq=False, res="thread"), dict(id="b", deps=[("a", [])], prio=0, seq=False, res="thread"),
                            dict(id="c", deps=[("b", [])], prio=0, seq=False, res="thread"), dict(id="d", deps=[], prio=0, seq=False, res="thread")])
                cw.insert_order = list(perm)
                cases += 1
                v = one_selection(cw, R, X, None, False, False)
                if v:
                    viol.append(dict(kind="history", check="selection", seed=seed, index=-cases, world=cw.describe(), insert_order=list(perm), R=R, X=X, T=None, flag=False, violations=v))
    if debug:
        # deterministic: a debug node d with k = 2, 3 parents (all roots) and a debug node e behind it; EVERY selection of a
        # non-empty subset of the parents by target / root / exclusion of the rest, flag on: d (and e) may be pulled in
        # only when ALL of d's parents are selected, whatever order the traversal meets them in
        import itertools

        for k, stub in ((2, False), (3, False), (2, True), (3, True)):
            ps = [NAMES[i] for i in range(k)]
            if stub:
                # a COMPUTED node whose id looks like an argument id (the identity stub of a sub-DAG input, "h.h>!>u"): it is a
                # parent like any other and has a value only if it is part of the run
                ps[-1] = "h.h>!>u"
            for chain in (False, True):
                for r in range(1, k + 1):
                    for sub in itertools.combinations(ps, r):
                        for how in ("target", "root", "exclude"):
                            nodes = [dict(id=p_, deps=[], prio=0, seq=False, res="thread") for p_ in ps]
                            nodes.append(dict(id="x", deps=[(p_, []) for p_ in ps], prio=0, seq=False, res="thread", debug=True))
                            if chain:
                                nodes.append(dict(id="y", deps=[("x", [])], prio=0, seq=False, res="thread", debug=True))
                            cw = World(nodes)
                            rest = [p_ for p_ in ps if p_ not in sub]
                            if how == "exclude" and not rest:
                                continue
                            R, X, T = (list(sub), None, None) if how == "root" else (None, rest, None) if how == "exclude" else (None, None, list(sub))
                            cases += 1
                            v = one_selection(cw, R, X, T, True, True)
                            if v:
                                viol.append(dict(kind="history", check="selection", seed=seed, index=-cases, debug=True, world=cw.describe(), R=R, X=X, T=T, flag=True, violations=v))
    if debug:
        # deterministic: two mirrored diamonds  x <- (l1, x0), x0 <- l2  and  y <- (l2, y0), y0 <- l1  (x0, x, y0, y debug):
        # whichever leaf the traversal starts from, one of x / y is first met BEFORE its debug parent has been added and must
        # still end up in the fixed point
        for T in (["l1", "l2"], ["l2", "l1"]):
            nodes = [dict(id="l1", deps=[], prio=0, seq=False, res="thread"), dict(id="l2", deps=[], prio=0, seq=False, res="thread"),
                     dict(id="x0", deps=[("l2", [])], prio=0, seq=False, res="thread", debug=True), dict(id="x", deps=[("l1", []), ("x0", [])], prio=0, seq=False, res="thread", debug=True),
                     dict(id="y0", deps=[("l1", [])], prio=0, seq=False, res="thread", debug=True), dict(id="y", deps=[("l2", []), ("y0", [])], prio=0, seq=False, res="thread", debug=True)]
            cw = World(nodes)
            cases += 1
            v = one_selection(cw, None, None, list(T), True, True)
            if v:
                viol.append(dict(kind="history", check="selection", seed=seed, index=-cases, debug=True, world=cw.describe(), R=None, X=None, T=T, flag=True, violations=v))
    for idx in range(n_cases):
        w = rand_world(rnd, rnd.randint(2, n_max), debug_p=0.35 if debug else 0.0, tags=True)
        ids = list(w.order)
        rts = roots(w)
        R = rnd.sample(rts, rnd.randint(1, len(rts))) if rnd.random() < 0.5 else None
        A = desc_closure(w, R) if R is not None else set(ids)
        X = rnd.sample(sorted(A), rnd.randint(0, min(2, len(A)))) if rnd.random() < 0.5 else None
        T = rnd.sample(ids, rnd.randint(0, min(2, len(ids)))) if rnd.random() < 0.6 else None
        if rnd.random() < 0.1 and R is not None and len(ids) > len(rts):
            R = R + [next(i for i in ids if i not in rts)]  # a non-root: must be refused
        flag = rnd.random() < 0.5 if debug else False
        if debug and rnd.random() < 0.5:
            # a target whose debug child has another parent: the child must not be pulled in unless that parent is selected
            cand = [(p_, c) for c in ids if w.nodes[c].get("debug") for p_, _ in w.nodes[c]["deps"] if len(w.nodes[c]["deps"]) > 1]
            if cand:
                T, R, X, flag = [rnd.choice(cand)[0]], None, None, True
        cases += 1
        if rnd.random() < 0.3:
            # the node table need not be stored in dependency order (a composed DAG appends its inputs last)
            w.insert_order = rnd.sample(w.order, len(w.order))
        by_ref = rnd.random() < 0.3
        if by_ref:
            # node REFERENCES as aliases; a tag spelled like the id of another node must not matter for a reference
            for nd in w.nodes.values():
                if rnd.random() < 0.5:
                    nd["tag"] = rnd.choice(ids)
        v = one_selection(w, R, X, T, flag, debug, by_ref=by_ref)
        if v:
            viol.append(dict(kind="history", check="selection", seed=seed, index=idx, debug=debug, world=w.describe(), R=R, X=X, T=T, flag=flag, by_reference=by_ref, violations=v))
    return viol, cases


def one_selection(w, R, X, T, flag, debug, by_ref=False):
    v = []
    old = cfg.RUN_DEBUG_NODES
    cfg.RUN_DEBUG_NODES = flag
    try:
        dag = w.build_dag()
        if by_ref:
            as_ref = lambda L: None if L is None else [dag.exec_nodes[i] for i in L]  # noqa: E731
            Tq, Xq, Rq = as_ref(T), as_ref(X), as_ref(R)
        else:
            Tq, Xq, Rq = T, X, R
        before = set(dag.graph_ids.nodes)
        dbg = {n for n in w.order if w.nodes[n].get("debug")}
        want_err = False
        B = None
        if R is not None and not set(R) <= set(roots(w)):
            want_err = True
        else:
            A = desc_closure(w, R) if R is not None else set(w.order)
            B = A - (desc_closure(w, X) if X is not None else set())
            if T is not None and not set(T) <= B:
                want_err = True
        try:
            ex = dag.executor(target_nodes=Tq, exclude_nodes=Xq, root_nodes=Rq)
        except ValueError:
            if not want_err:
                v.append(f"ValueError for the legal selection R={R} X={X} T={T}")
            if w.calls:
                v.append("a node ran although the selection was refused")
            return v
        except Exception as e:  # noqa: BLE001
            v.append(f"executor(R={R} X={X} T={T}) raised {type(e).__name__}: {e}" + (" (a ValueError is the documented refusal)" if want_err else " for a legal selection"))
            return v
        if want_err:
            v.append(f"selection R={R} X={X} T={T} should raise ValueError (non-root / target outside the selection)")
            return v
        exp = closed_form(w, R, X, T)
        got = set(ex.graph.nodes)
        if not flag:
            exp_run = exp - dbg
            if got != exp_run:
                v.append(f"executor graph {sorted(got)} != documented closure {sorted(exp_run)} (R={R} X={X} T={T}, debug off)")
        else:
            if not (exp <= got):
                v.append(f"executor graph {sorted(got)} misses selected nodes {sorted(exp - got)}")
            for a in got - exp:
                if a not in dbg:
                    v.append(f"non-debug node {a} added to the selection with RUN_DEBUG_NODES on")
                elif not all(d in got for d in w.all_deps(a) if d in w.nodes):
                    v.append(f"[C13] debug node {a} pulled in although its inputs {[d for d in w.all_deps(a) if d not in got]} are not selected")
            # the documented selection is a FIXED POINT over the LEAVES of the selected sub-graph: a debug successor whose
            # parents are all in the growing set (leaves + debug nodes added so far) is added; nothing of it may be missing
            succ = {n_: [m for m in w.order if n_ in w.all_deps(m)] for n_ in w.order}
            L = {n_ for n_ in exp if not any(m in exp for m in succ[n_])}
            grown = True
            while grown:
                grown = False
                for n_ in sorted(L):
                    for m in succ[n_]:
                        if m not in L and m in dbg and all(d in L for d in w.all_deps(m) if d in w.nodes):
                            L.add(m)
                            grown = True
            for a in sorted((L & dbg) - got):
                v.append(f"[C03] debug node {a} is not part of the run although RUN_DEBUG_NODES is on and it belongs to the fixed point of 'debug successor whose parents are all selected leaves / added debug nodes' (leaves of the selection: {sorted(n_ for n_ in exp if not any(m in exp for m in succ[n_]))})")
        # C02: a selected sub-graph keeps EVERY dependency edge between two selected nodes (the scheduler orders by them)
        w_edges = {(d, n) for n in w.order for d in w.all_deps(n) if d in w.nodes}
        try:
            direct = dag.graph_ids.make_subgraph(target_nodes=T, exclude_nodes=X, root_nodes=R)
        except Exception as e:  # noqa: BLE001
            direct = None
            v.append(f"make_subgraph raised {type(e).__name__}: {e} for the legal selection R={R} X={X} T={T}")
        for label, g in (("executor graph", ex.graph), ("make_subgraph result", direct)):
            if g is None:
                continue
            sel = set(g.nodes)
            exp_e = {(a, b) for a, b in w_edges if a in sel and b in sel}
            if set(g.edges) != exp_e:
                v.append(f"[C02] {label} for R={R} X={X} T={T} has edges {sorted(g.edges)} instead of the dependency edges {sorted(exp_e)} between its nodes")
        w.selection = got
        w.calls = {}
        out, ctrl = run_controlled(lambda: ex(), w)
        if out[0] != "return":
            v.append(f"executor call raised {out[1]!r}")
            return v
        ran = {n for n, c in w.calls.items() if c}
        if ran != got:
            v.append(f"executed {sorted(ran)} but the selection is {sorted(got)}")
        if any(c > 1 for c in w.calls.values()):
            v.append(f"a node ran twice: {w.calls}")
        if not flag and ran & dbg:
            v.append(f"[C13] debug nodes {sorted(ran & dbg)} executed with RUN_DEBUG_NODES off")
        val, _ = reference(w)
        for nid, r in zip(w.order, out[1]):
            expv = val[nid] if nid in got else None
            if r != expv:
                v.append(f"returned value of {nid}: {r!r}, expected {expv!r}")
        if set(dag.graph_ids.nodes) != before:
            v.append("[C15] the DAG's own graph was modified by creating / running an executor")
        w.selection = None
        # a later plain call must still run everything (C15)
        w.calls = {}
        out2, _ = run_controlled(lambda: dag(), w)
        exp_all = set(w.order) - (dbg if not flag else set())
        if out2[0] == "return" and {n for n, c in w.calls.items() if c} != exp_all:
            v.append(f"[C15] plain call after the executor ran {sorted(w.calls)} instead of {sorted(exp_all)}")
    finally:
        cfg.RUN_DEBUG_NODES = old
        w.selection = None
    return v


# =====================================================================================================================
def check_setup_histories(seed, n_cases, n_max=4, length=5):
    """C11: over any history of call / executor / setup / deepcopy each setup node runs at most once per instance,
    later executions see the first value, only needed setup nodes run"""
    rnd = random.Random(seed)
    viol, cases = [], 0
    # deterministic: an executor selected by a node REFERENCE, on a DAG where ANOTHER node carries a tag spelled like that
    # node's id; executor.setup() / DAG.setup(reference) run the setup nodes of the selection - not those of the tagged node
    import asyncio

    for is_async in (False, True):
        for how in ("executor.setup", "dag.setup", "executor.call"):
            for sel in ("target", "root+target"):
                nodes = [dict(id="lm", deps=[], prio=0, seq=False, res="thread", setup=True), dict(id="lt", deps=[], prio=0, seq=False, res="thread", setup=True),
                         dict(id="x", deps=[("lm", [])], prio=0, seq=False, res="thread"), dict(id="y", deps=[("lt", [])], prio=0, seq=False, res="thread", tag="x")]
                cw = World(nodes)
                d = cw.build_dag(is_async=is_async)
                aw = (lambda c: asyncio.run(c)) if is_async else (lambda c: c)
                kw = dict(target_nodes=[d.exec_nodes["x"]]) if sel == "target" else dict(target_nodes=[d.exec_nodes["x"]], root_nodes=[d.exec_nodes["lm"]])
                cases += 1
                cw.calls = {}
                if how == "executor.setup":
                    out, _ = run_controlled(lambda: aw(d.executor(**kw).setup()), cw)
                elif how == "dag.setup":
                    out, _ = run_controlled(lambda: aw(d.setup(**kw)), cw)
                else:
                    out, _ = run_controlled(lambda: aw(d.executor(**kw)()), cw)
                ran = sorted(n for n, c in cw.calls.items() if c)
                exp = ["lm"] if how != "executor.call" else ["lm", "x"]
                if out[0] != "return" or ran != exp:
                    viol.append(dict(kind="history", check="setup", seed=seed, index=-cases, world=cw.describe(), is_async=is_async, violations=[
                        f"{how}({sel} = reference to node x; node y is TAGGED 'x') -> {out[0]}, ran {ran}; the selection needs exactly {exp}"]))
    for idx in range(n_cases):
        w = rand_world(rnd, rnd.randint(2, n_max), setup_p=0.5)
        sids = [n for n in w.order if w.nodes[n].get("setup")]
        if not sids:
            continue
        cases += 1
        is_async = rnd.random() < 0.3
        hist = []
        for _ in range(length):
            op = rnd.choice(["call", "exec", "setup", "setup_sel", "deepcopy", "exec_setup_root", "setup_excl", "exec_make", "exec_run"])
            if op in ("exec", "setup_sel", "exec_make"):
                hist.append((op, rnd.sample(w.order, rnd.randint(1, min(2, len(w.order))))))
            elif op == "exec_setup_root":
                # only roots whose selection is closed under the dependencies of its setup nodes: a root-restricted run
                # gives None to a node for every input outside the selection (documented meaning of root_nodes), and a
                # setup result computed that way is legitimately kept - outside this oracle
                ok_roots = [r for r in roots(w) if all(d in desc_closure(w, [r]) for n_ in desc_closure(w, [r]) if w.nodes[n_].get("setup") for d in w.all_deps(n_) if d in w.nodes)]
                hist.append((op, [rnd.choice(ok_roots)]) if ok_roots else ("setup", None))
            elif op == "setup_excl":
                hist.append((op, [rnd.choice(w.order)]))
            else:
                hist.append((op, None))
        v = one_setup_history(w, hist, is_async)
        if v:
            viol.append(dict(kind="history", check="setup", seed=seed, index=idx, world=w.describe(), history=hist, is_async=is_async, violations=v))
    return viol, cases


def one_setup_history(w, hist, is_async):
    import asyncio

    v = []
    dag = w.build_dag(is_async=is_async)
    sids = {n for n in w.order if w.nodes[n].get("setup")}
    count = {}  # (instance id, node) -> runs
    inst = {"cur": 0}

    def run(fn):
        w.calls = {}
        out, _ = run_controlled(fn, w)
        for n, c in w.calls.items():
            count[(inst["cur"], n)] = count.get((inst["cur"], n), 0) + c
        return out

    aw = (lambda c: asyncio.run(c)) if is_async else (lambda c: c)
    val, _ = reference(w)
    pending = None
    for op, arg in hist:
        before = dict(w.calls)
        if op == "call":
            out = run(lambda: aw(dag()))
            if out[0] == "return" and tuple(out[1]) != tuple(val[n] for n in w.order):
                v.append(f"call returned {out[1]!r}, expected {[val[n] for n in w.order]!r}")
        elif op == "exec":
            out = run(lambda: aw(dag.executor(target_nodes=arg)()))
            need = anc_closure(w, arg)
            ran_setup = {n for n in w.calls if n in sids}
            if not ran_setup <= need:
                v.append(f"executor(target_nodes={arg}) ran setup nodes {sorted(ran_setup - need)} it does not need")
        elif op == "setup":
            out = run(lambda: aw(dag.setup()))
            if any(n not in sids for n in w.calls):
                v.append(f"setup() ran non-setup nodes {[n for n in w.calls if n not in sids]}")
        elif op == "setup_sel":
            out = run(lambda: aw(dag.setup(target_nodes=arg)))
            need = anc_closure(w, arg) & sids
            if set(w.calls) - need:
                v.append(f"setup(target_nodes={arg}) ran {sorted(set(w.calls) - need)} beyond the needed setup nodes {sorted(need)}")
        elif op == "exec_make":
            # an executor created now and run LATER (after other operations may have run setup nodes)
            pending = (dag.executor(target_nodes=arg), arg, inst["cur"])
            continue
        elif op == "exec_run":
            if pending is None or pending[2] != inst["cur"]:
                continue
            ex_, arg_, _ = pending
            pending = None
            out = run(lambda: aw(ex_()))
            need = anc_closure(w, arg_)
            ran_setup = {n for n in w.calls if n in sids}
            if not ran_setup <= need:
                v.append(f"executor(target_nodes={arg_}) created earlier ran setup nodes {sorted(ran_setup - need)} it does not need")
        elif op == "exec_setup_root":
            # the setup() of an executor restricted by root_nodes runs only setup nodes of the executor's selection
            out = run(lambda: aw(dag.executor(root_nodes=arg).setup()))
            sel = desc_closure(w, arg)
            if set(w.calls) - (sel & sids):
                v.append(f"executor(root_nodes={arg}).setup() ran {sorted(set(w.calls) - (sel & sids))}, outside the setup nodes {sorted(sel & sids)} of its selection")
        elif op == "setup_excl":
            out = run(lambda: aw(dag.setup(exclude_nodes=arg)))
            cut = desc_closure(w, arg)
            if set(w.calls) - (sids - cut):
                v.append(f"setup(exclude_nodes={arg}) ran {sorted(set(w.calls) - (sids - cut))} beyond the setup nodes {sorted(sids - cut)} of its selection")
        elif op == "deepcopy":
            already = {n for (i, n), c in count.items() if i == inst["cur"] and c}
            dag = copy.deepcopy(dag)
            new = max(i for i, _ in list(count) + [(inst["cur"], None)]) + 1
            for n in already:
                count[(new, n)] = count.get((inst["cur"], n), 0)
            # the copy is independent: re-point the world's functions are shared, counters are per instance by bookkeeping
            inst["cur"] = new
            continue
        if out[0] == "raise":
            v.append(f"{op}({arg}) raised {out[1]!r}")
    for (i, n), c in count.items():
        if n in sids and c > 1:
            v.append(f"setup node {n} ran {c} times on DAG instance {i}")
    return v


# =====================================================================================================================
def check_no_leak(seed, n_cases, n_max=4):
    """C15: the k-th call depends only on its own arguments; executors are single use or re-run from scratch"""
    rnd = random.Random(seed)
    viol, cases = [], 0
    for idx in range(n_cases):
        n = rnd.randint(2, n_max)
        w = rand_world(rnd, n, fail_p=0.0)
        # two DAG inputs, the second one defaulted; roots read them
        w.inputs = ["h>!>p0", "h>!>p1"]
        w.consts = {"h>!>p1": ("default", 1)}
        for nid in roots(w)[:2]:
            w.nodes[nid]["deps"] = [("h>!>p0", []), ("h>!>p1", [])]
        cases += 1
        v = one_leak_history(w, rnd)
        if v:
            viol.append(dict(kind="history", check="leak", seed=seed, index=idx, world=w.describe(), violations=v))
    return viol, cases


def fresh_result(w, args):
    w2 = World([dict(n) for n in w.nodes.values()], w.max_concurrency, consts=dict(w.consts), inputs=list(w.inputs))
    d = w2.build_dag()
    out, _ = run_controlled(lambda: d(*args), w2)
    return out


def one_leak_history(w, rnd):
    v = []
    dag = w.build_dag()
    steps = []
    for k in range(4):
        kind = rnd.choice(["call1", "call2", "executor", "failing_executor", "compose", "config", "executor_twice"])
        steps.append(kind)
        a1, a2 = ("A", k), ("B", k)
        if kind == "call1":
            run_controlled(lambda: dag(a1), w)
        elif kind == "call2":
            run_controlled(lambda: dag(a1, a2), w)
        elif kind == "executor":
            ex = dag.executor(target_nodes=[rnd.choice(w.order)])
            run_controlled(lambda: ex(a1, a2), w)
        elif kind == "executor_twice":
            ex = dag.executor()
            o1, _ = run_controlled(lambda: ex(a1), w)
            o2, _ = run_controlled(lambda: ex(a1), w)
            if o2[0] != "raise" and o2[1] != o1[1]:
                v.append(f"[executor] second run of an executed executor returned {o2[1]!r} instead of refusing or recomputing {o1[1]!r}")
        elif kind == "failing_executor":
            victim = rnd.choice(w.order)
            w.nodes[victim]["fails"] = True
            ex = dag.executor()
            o1, _ = run_controlled(lambda: ex(a1, a2), w)
            w.nodes[victim]["fails"] = False
            o2, _ = run_controlled(lambda: ex(a1, a2), w)
            exp = fresh_result(w, (a1, a2))
            if o2[0] == "return" and exp[0] == "return" and o2[1] != exp[1]:
                v.append(f"[executor] re-run after a failed run returned {o2[1]!r}, a fresh run gives {exp[1]!r}")
        elif kind == "compose":
            try:
                dag.compose("cmp", [rnd.choice(w.order)], [rnd.choice(w.order)])
            except (ValueError, Warning):
                pass
        elif kind == "config":
            dag.config_from_dict({"nodes": {rnd.choice(w.order): {"priority": rnd.randint(0, 5)}}})
        # after every step: a call must behave as on a freshly built DAG
        for args in (("X", k), ), (("X", k), ("Y", k)):
            got, _ = run_controlled(lambda: dag(*args), w)
            exp = fresh_result(w, args)
            if got[0] != exp[0] or (got[0] == "return" and got[1] != exp[1]):
                v.append(f"after {steps}: dag{args} -> {got!r}, freshly built DAG -> {exp!r}")
                return v
    return v


# =====================================================================================================================
def check_cache(seed, n_cases, n_max=4):
    """C18: restart from a cache file reuses the cached results"""
    rnd = random.Random(seed)
    viol, cases = [], 0
    tmp = tempfile.mkdtemp(prefix="tawazi_cache_")
    try:
        # deterministic: the node of cache_deps_of / target_nodes is named by REFERENCE while another node carries a tag
        # spelled like its id: the file leaves out (resp. the run selects) that very node, not the tagged one
        for mode in ("deps_of", "target"):
            nodes = [dict(id="a", deps=[], prio=0, seq=False, res="thread"), dict(id="n", deps=[("a", [])], prio=0, seq=False, res="thread"),
                     dict(id="o", deps=[], prio=0, seq=False, res="thread", tag="n")]
            cw = World(nodes)
            cases += 1
            v = one_cache(cw, mode, ["n"], os.path.join(tmp, f"d_{mode}.pkl"), by_ref=True)
            if v:
                viol.append(dict(kind="history", check="cache", seed=seed, index=-cases, world=cw.describe(), mode=mode, pick=["n"], by_reference=True, violations=v))
        for idx in range(n_cases):
            w = rand_world(rnd, rnd.randint(2, n_max), setup_p=0.2)
            if idx % 3 == 1:
                # a DAG with an input argument, supplied (as an equal, not identical, value) to the caching run and to the restart
                w.inputs = ["h>!>p0"]
                for nid in [n_ for n_ in roots(w) if not w.nodes[n_].get("setup")][:2]:
                    w.nodes[nid]["deps"] = [("h>!>p0", [])]
                w.call_args = (rnd.choice(["a string argument", ("tuple", 300), 123456, 2.5]),)
            mode = rnd.choice(["whole", "target", "deps_of", "deps_of"])
            pick = rnd.choice(w.order)
            if mode == "deps_of" and len(w.order) >= 2 and rnd.random() < 0.5:
                pick = rnd.sample(w.order, 2)  # several aliases, one may feed the other
            cases += 1
            v = one_cache(w, mode, pick, os.path.join(tmp, f"c{idx}.pkl"))
            if v:
                viol.append(dict(kind="history", check="cache", seed=seed, index=idx, world=w.describe(), mode=mode, pick=pick, violations=v))
    finally:
        import shutil

        shutil.rmtree(tmp, ignore_errors=True)
    return viol, cases


def one_cache(w, mode, pick, path, by_ref=False):
    import pickle

    v = []
    dag = w.build_dag()
    picks = pick if isinstance(pick, list) else [pick]

    class _KW(dict):
        """the selection keywords; with by_ref the nodes are named by REFERENCE (resolved per DAG instance)"""

    def mk_kw(d):
        sel = [d.exec_nodes[i] for i in picks] if by_ref else picks
        return {"whole": {}, "target": {"target_nodes": sel}, "deps_of": {"cache_deps_of": sel}}[mode]

    kw = mk_kw(dag)
    ex = dag.executor(cache_in=path, **kw)
    w.calls = {}
    import copy as _copy

    args = tuple(getattr(w, "call_args", ()))
    fresh_args = lambda: tuple(_copy.deepcopy(a) for a in args)  # noqa: E731  (equal values, other objects - as after a new process)
    o1, _ = run_controlled(lambda: ex(*fresh_args()), w)
    if o1[0] != "return":
        return [f"caching run raised {o1[1]!r}"]
    ran1 = set(w.calls)
    content = pickle.load(open(path, "rb"))
    if mode == "deps_of":
        need = anc_closure(w, picks) - set(picks)
        if set(picks) & set(content):
            v.append(f"cache_deps_of={picks}: the file holds the own result of {sorted(set(picks) & set(content))}")
        if not need <= set(content):
            v.append(f"cache_deps_of={picks}: the file misses dependencies {sorted(need - set(content))}")
    # restart on a FRESH instance of the same DAG (new process in real life)
    w2 = World([dict(n) for n in w.nodes.values()], w.max_concurrency, consts=dict(w.consts), inputs=list(w.inputs))
    dag2 = w2.build_dag()
    ex2 = dag2.executor(from_cache=path, **mk_kw(dag2))
    w2.calls = {}
    o2, _ = run_controlled(lambda: ex2(*fresh_args()), w2)
    if o2[0] != "return":
        return v + [f"restart raised {o2[1]!r}"]
    if o2[1] != o1[1] and mode != "deps_of":
        v.append(f"restart returned {o2[1]!r}, caching run returned {o1[1]!r}")
    reran = {n for n in w2.calls if n in content}
    if reran:
        v.append(f"restart executed {sorted(reran)} whose results are in the cache file")
    if mode == "deps_of" and set(w2.calls) != set(picks):
        v.append(f"restart from cache_deps_of={picks} executed {sorted(w2.calls)} instead of exactly {sorted(picks)}")
    # a second caching run overwrites the file; a later restart must see the new content
    w.nodes[w.order[0]]["value"] = ("changed",)
    dag3 = w.build_dag()
    ex3 = dag3.executor(cache_in=path, **mk_kw(dag3))
    o3, _ = run_controlled(lambda: ex3(*fresh_args()), w)
    w4 = World([dict(n) for n in w.nodes.values()], w.max_concurrency, consts=dict(w.consts), inputs=list(w.inputs))
    dag4 = w4.build_dag()
    ex4 = dag4.executor(from_cache=path, **mk_kw(dag4))
    o4, _ = run_controlled(lambda: ex4(*fresh_args()), w4)
    if o3[0] == "return" and o4[0] == "return" and mode != "deps_of" and o4[1] != o3[1]:
        v.append(f"restart after the file was rewritten returned stale {o4[1]!r} instead of {o3[1]!r}")
    return v


# =====================================================================================================================
def check_compose(seed, n_cases, n_max=4):
    """C19: compose(inputs, outputs) computes the outputs from the supplied intermediate values"""
    rnd = random.Random(seed)
    viol, cases = [], 0
    # deterministic: a chain of setup nodes p -> s in front of the output, composed before anything ran / after a call /
    # after setup(): the composition needs every node between its inputs and its outputs, whether or not the original
    # already holds a value for it
    for pre in ("none", "call", "setup"):
        for ins in ([], ["x"]):
            for s_is_setup in (True, False):
                nodes = [dict(id="p", deps=[], prio=0, seq=False, res="thread", setup=True), dict(id="s", deps=[("p", [])], prio=0, seq=False, res="thread", setup=s_is_setup),
                         dict(id="x", deps=[], prio=0, seq=False, res="thread"), dict(id="o", deps=[("s", []), ("x", [])], prio=0, seq=False, res="thread")]
                cw = World(nodes)
                cases += 1
                v = one_compose(cw, list(ins), ["o"], pre=pre)
                if v:
                    viol.append(dict(kind="history", check="compose", seed=seed, index=-cases, world=cw.describe(), inputs=ins, outputs=["o"], before_compose=pre, violations=v))
    for idx in range(n_cases):
        w = rand_world(rnd, rnd.randint(2, n_max), setup_p=0.3 if idx % 3 == 0 else 0.0)
        # make some references keyed / keyword / activation so that every kind of reference is rewired
        for nid in w.order:
            nd = w.nodes[nid]
            if nd["deps"] and rnd.random() < 0.4:
                d, _ = nd["deps"][0]
                nd["deps"][0] = (d, rnd.choice([["id"], ["k", "t"], ["args"]]))
            if len(nd["deps"]) > 1 and rnd.random() < 0.4:
                d, k = nd["deps"].pop()
                nd["kwdeps"] = {"kw": (d, k)}
            if nd["deps"] and rnd.random() < 0.25:
                nd["active"] = (nd["deps"][0][0], ["t"])
            elif w.order.index(nid) > 0 and rnd.random() < 0.25:
                # a node that references an earlier node ONLY through its activation flag
                nd["active"] = (rnd.choice(w.order[: w.order.index(nid)]), rnd.choice([["t"], ["k", "t"]]))
        srcs = [d for nd in w.nodes.values() for d, _ in list(nd.get("kwdeps", {}).values()) + ([nd["active"]] if nd.get("active") else []) + [x for x in nd["deps"] if x[1]]]
        ins = rnd.sample(w.order, rnd.randint(0, min(2, len(w.order) - 1)))
        if srcs and rnd.random() < 0.6:
            ins = list({rnd.choice(srcs)} | set(ins[:1]))
            if len(ins) >= len(w.order):
                ins = ins[:1]
        # an output that is also an input is the recorded known finding KF-C19-overlap: not generated here
        outs = rnd.sample([o for o in w.order if o not in ins], rnd.randint(1, min(2, len(w.order) - len(ins))))
        cases += 1
        v = one_compose(w, ins, outs)
        if v:
            viol.append(dict(kind="history", check="compose", seed=seed, index=idx, world=w.describe(), inputs=ins, outputs=outs, violations=v))
    return viol, cases


def _same_outcome(a, b):
    if a[0] != b[0]:
        return False
    if a[0] == "return":
        return a[1] == b[1]
    return type(a[1]) is type(b[1]) and str(a[1]) == str(b[1])  # two raises: same exception type and message


def _original_unchanged(w, dag, before):
    w.calls = {}
    after, _ = run_controlled(lambda: dag(), w)
    if not _same_outcome(after, before):
        return [f"[C15] the original DAG changed behaviour after a REFUSED compose: {before!r} -> {after!r}", f"[C19] the original DAG changed behaviour after a refused compose: {before!r} -> {after!r}"]
    return []


def one_compose(w, ins, outs, pre=None):
    import warnings

    v = []
    dag = w.build_dag()
    val0, st0 = reference(w)
    if pre == "setup":
        # only the setup nodes have run when compose is called
        run_controlled(lambda: dag.setup(), w)
        before = ("return", tuple(val0[i] for i in w.order))
    elif pre == "call" or (pre is None and ("__kf_index__" in st0 or (len(ins) + len(outs)) % 2 == 0)):
        before, _ = run_controlled(lambda: dag(), w)
    else:
        # compose BEFORE the original has ever run (its setup nodes have no result yet): the original must afterwards
        # still compute what its description says
        before = ("return", tuple(val0[i] for i in w.order))
    # expected errors: an input that depends on another input
    bad = any(i in anc_closure(w, [j]) - {j} for i in ins for j in ins if i != j)
    supplied = {i: {"id": i, "args": ["SUPPLIED"], "t": True, "f": False, "k": {"t": True, "f": False}} for i in ins}
    try:
        with warnings.catch_warnings():
            warnings.simplefilter("ignore")
            cd = dag.compose("cmp", ins, outs)
    except ValueError:
        if not bad:
            v.append(f"compose({ins}, {outs}) raised ValueError for a legal composition")
        return v + _original_unchanged(w, dag, before)
    except KeyError as e:
        return [f"compose({ins}, {outs}) raised KeyError {e}"]
    except BaseException as e:  # noqa: BLE001
        from tawazi.errors import TawaziUsageError

        if isinstance(e, TawaziUsageError):
            # a setup node of the composition would depend on one of its inputs: a refusal -- which must not have touched the original
            return v + _original_unchanged(w, dag, before)
        raise
    if bad:
        return [f"compose({ins}, {outs}) accepted an input that depends on another input"]
    # reference: evaluate the original description with the inputs' values replaced
    w2 = World([dict(n) for n in w.nodes.values()], w.max_concurrency)
    for i in ins:
        w2.nodes[i]["value"] = supplied[i]
        w2.nodes[i]["deps"], w2.nodes[i]["kwdeps"] = [], {}
        w2.nodes[i].pop("active", None)
    val, status = reference(w2)
    if "__kf_index__" in status:
        return v
    exp = tuple(val[o] for o in outs)
    w.calls = {}
    got, _ = run_controlled(lambda: cd(*[supplied[i] for i in ins]), w)
    if got[0] != "return":
        v.append(f"composed DAG raised {got[1]!r}")
    elif tuple(got[1]) != exp:
        v.append(f"composed DAG returned {got[1]!r}, substituting the inputs in the original gives {exp!r}")
    need = anc_closure(w2, outs) - set(ins)
    ran = set(w.calls)
    if not ran <= need:
        v.append(f"composed DAG ran {sorted(ran - need)} which the outputs do not need")
    after, _ = run_controlled(lambda: dag(), w)
    if not _same_outcome(after, before):
        v.append(f"the original DAG changed behaviour after compose: {before!r} -> {after!r}")
    return v


# =====================================================================================================================
def check_config(seed, n_cases, n_max=4):
    """C07 / C08 / C04 after re-configuration: the compound-priority table follows the new priorities (for the call and
    for every executor), and the scheduler uses the re-configured max_concurrency"""
    from harness.explore import all_schedules

    rnd = random.Random(seed)
    viol, cases = [], 0
    for idx in range(n_cases):
        w = rand_world(rnd, rnd.randint(2, n_max), maxc=rnd.choice([1, 2]))
        for nd in w.nodes.values():
            nd["res"] = rnd.choice(["thread", "thread", "async"])
            nd["seq"] = nd["seq"] and rnd.random() < 0.5
        picks = rnd.sample(w.order, rnd.randint(1, min(3, len(w.order))))
        conf = {"nodes": {}}
        for p_ in picks:
            c = {}
            if rnd.random() < 0.7:
                c["priority"] = rnd.randint(0, 6)
            if rnd.random() < 0.4 or not c:
                c["is_sequential"] = bool(w.nodes[p_]["seq"]) if rnd.random() < 0.5 else rnd.random() < 0.3
            conf["nodes"][p_] = c
        if rnd.random() < 0.6:
            conf["max_concurrency"] = rnd.choice([1, 2, 3])
        cases += 1
        v = one_config(w, conf, rnd)
        if v:
            viol.append(dict(kind="history", check="config", seed=seed, index=idx, world=w.describe(), config=conf, violations=v))
    return viol, cases


def one_config(w, conf, rnd):
    from harness.explore import run_once
    from harness.monitors import check_run

    v = []
    dag = w.build_dag()
    if rnd.random() < 0.5:
        # a plain call (and an executor) BEFORE the re-configuration: nothing derived for them may survive it (C15)
        run_controlled(lambda: dag(), w)
        dag.executor()
    dag.config_from_dict(conf)
    # the description after re-configuration
    for nid, c in conf["nodes"].items():
        if "priority" in c:
            w.nodes[nid]["prio"] = c["priority"]
        if "is_sequential" in c:
            w.nodes[nid]["seq"] = c["is_sequential"]
    if "max_concurrency" in conf:
        w.max_concurrency = conf["max_concurrency"]
    exp = {n: w.compound_priority(n) for n in w.order}
    for where, g in (("dag.graph_ids", dag.graph_ids), ("executor().graph", dag.executor().graph), ("executor(target_nodes=[last]).graph", dag.executor(target_nodes=[w.order[-1]]).graph)):
        got = {n: g.compound_priority[n] for n in g.nodes}
        bad = {n: (got[n], exp[n]) for n in got if got[n] != exp[n]}
        if bad:
            v.append(f"[C07] compound priority in {where} after config_from_dict: {bad} (got, expected)")
    for n in w.order:
        x = dag.exec_nodes[n]
        if x.is_sequential != bool(w.nodes[n]["seq"]) or x.priority != w.nodes[n]["prio"]:
            v.append(f"[C05] node {n} after config: is_sequential={x.is_sequential} priority={x.priority}, configured {w.nodes[n]['seq']}/{w.nodes[n]['prio']}")
    # scheduling after re-configuration, under the controller (first few schedules)
    props = ["C04", "C05", "C06", "C08"]
    val, status = reference(w)
    k = 0
    prefix = []
    while prefix is not None and k < 6:
        ch = Chooser(prefix)
        ctrl = Controller(ch)
        w.ctrl, ctrl.world = ctrl, w
        out = ctrl.run(lambda: dag())
        viol = check_run(w, ctrl, out, props, status, val)
        for p_, ms in viol.items():
            for m in ms:
                if "[KF-" not in m:
                    v.append(f"[{p_}] after config_from_dict: {m}")
                    if p_ == "C06":
                        # scheduling with stale priorities after a re-configuration: also "state leaked from an earlier call" (C15)
                        # and "recomputed when priorities are reconfigured" (C07)
                        v.append(f"[C15] after config_from_dict (a call / executor was made before it): {m}")
                        v.append(f"[C07] after config_from_dict: {m}")
        prefix = ch.next_prefix()
        k += 1
    w.ctrl = None
    return v


# =====================================================================================================================
def check_failure_recovery(seed, n_cases=0):
    """C09 / C15 / C11 (deterministic): after a call / executor run / setup() that FAILED, the next operation on the same DAG
    instance (and on another DAG) returns, and returns what a freshly built DAG returns; nothing held by the failed call
    (a lock, a half-written result) survives it.  The failing node is the setup node itself or a later node; the setup node
    returns a value or None."""
    import asyncio

    viol, cases = [], 0
    for is_async in (False, True):
        for first in ("call", "executor", "setup"):
            for bad in ("s", "b"):
                for none_valued in (False, True):
                    if first == "setup" and bad == "b":
                        continue  # setup() does not run b
                    nodes = [dict(id="s", deps=[], prio=0, seq=False, res="thread", setup=True), dict(id="a", deps=[("s", [])], prio=0, seq=False, res="thread"),
                             dict(id="b", deps=[("a", [])], prio=0, seq=False, res="main" if not is_async else "async"), dict(id="c", deps=[], prio=0, seq=False, res="thread")]
                    if none_valued:
                        nodes[0]["value"] = None
                    w = World(nodes)
                    other = World([dict(n) for n in nodes])
                    dag, dag2 = w.build_dag(is_async=is_async), other.build_dag(is_async=is_async)
                    aw = (lambda c: asyncio.run(c)) if is_async else (lambda c: c)
                    ops = {"call": lambda d: aw(d()), "executor": lambda d: aw(d.executor()()), "setup": lambda d: aw(d.setup())}
                    cases += 1
                    v = []
                    w.nodes[bad]["fails"] = True
                    o1, _ = run_controlled(lambda: ops[first](dag), w)
                    w.nodes[bad]["fails"] = False
                    if o1[0] != "raise":
                        v.append(f"{first} with failing node {bad} -> {o1[0]} instead of raising")
                    for nxt, d_, w_ in (("call", dag, w), ("executor", dag, w), ("setup", dag, w), ("call on ANOTHER DAG", dag2, other)):
                        w_.calls = {}
                        o2, _ = run_controlled(lambda: ops[nxt.split()[0]](d_), w_)
                        if o2[0] == "nonterminating":
                            v.append(f"after a failed {first} (node {bad} raised), the next {nxt} did not return: {o2[1]}")
                            break
                        if o2[0] == "raise":
                            v.append(f"after a failed {first} (node {bad} raised), the next {nxt} raised {o2[1]!r}")
                            break
                        if nxt != "setup":
                            exp = fresh_result(w_, ()) if not is_async else None
                            if exp is not None and exp[0] == "return" and o2[1] != exp[1]:
                                v.append(f"after a failed {first}, the next {nxt} returned {o2[1]!r}, a freshly built DAG returns {exp[1]!r}")
                        if w_.calls.get("s", 0) > 1:
                            v.append(f"[C11] setup node ran {w_.calls['s']} times in one {nxt}")
                    if v:
                        viol.append(dict(kind="history", check="failure_recovery", seed=seed, index=cases, world=w.describe(), is_async=is_async, first=first, failing=bad, violations=v))
                        if any("did not return" in m for m in v):
                            return viol, cases  # every further hang costs the wall-clock watchdog
    return viol, cases

