"""harness.monitors -- the property predicates evaluated concretely on a controlled run of the real scheduler.
Each monitor returns a list of human-readable violations (empty = held on this run)."""
from __future__ import annotations

from concurrent.futures import ALL_COMPLETED, FIRST_COMPLETED


class Fault:
    def __init__(self, nid):
        self.nid = nid

    def __repr__(self):
        return f"Fault({self.nid})"


def path_get(v, key):
    for k in key:
        v = v[k]
    return v


def reference(world, given=None):
    """sequential evaluation of the described program: id -> value | None (deactivated / unselected) | Fault"""
    part = world.participating()
    val = dict(world.consts)
    val.update(given or {})
    status = {}
    for nid in world.order:  # `order` is a topological order by construction
        n = world.nodes[nid]
        if nid in val and nid not in part:
            status[nid] = "given"
            continue
        if nid not in part:
            status[nid] = "unselected"
            continue
        deps = world.all_deps(nid)
        if any(isinstance(val.get(d), Fault) for d in deps if d in part):
            val[nid] = Fault(next(val[d].nid for d in deps if isinstance(val.get(d), Fault)))
            status[nid] = "blocked"
            continue

        def ref(d, k):
            if d not in val:
                return None
            v = val[d]
            return None if v is None and not k else path_get(v, k)

        act = n.get("active")
        if act is not None:
            try:
                flag = ref(act[0], act[1])
            except Exception:
                flag = None
                status["__kf_index__"] = f"activation flag of {nid} indexes the None result of deactivated node {act[0]}"
            if not flag:
                val[nid] = None
                status[nid] = "inactive"
                continue
        if n.get("fails"):
            val[nid] = Fault(nid)
            status[nid] = "fails"
            continue
        try:
            args = [ref(d, k) for d, k in n.get("deps", [])]
            kws = {name: ref(d, k) for name, (d, k) in n.get("kwdeps", {}).items()}
        except Exception:
            val[nid] = None
            status[nid] = "badindex"
            status["__kf_index__"] = f"{nid} indexes the None result of a deactivated node"
            continue
        val[nid] = world.value_of(nid, args, kws)
        status[nid] = "runs"
    return val, status


def resolved_set(world, ctrl, status):
    """nodes whose outcome is settled at this instant: function returned, or deactivated with all deps settled"""
    part = world.participating()
    res = {n for n in ctrl.exited if n not in ctrl.failed}
    changed = True
    while changed:
        changed = False
        for nid in world.order:
            if nid in res or nid not in part:
                continue
            if status.get(nid) == "inactive" and all((d not in part) or d in res for d in world.all_deps(nid)):
                res.add(nid)
                changed = True
    return res


def ready_active(world, ev_exited, ev_entered_or_dispatched, failed, status):
    part = world.participating()

    class _C:
        exited = ev_exited
        failed_ = failed

    res = set(x for x in ev_exited if x not in failed)
    changed = True
    while changed:
        changed = False
        for nid in world.order:
            if nid in res or nid not in part:
                continue
            if status.get(nid) == "inactive" and all((d not in part) or d in res for d in world.all_deps(nid)):
                res.add(nid)
                changed = True
    out = []
    for nid in world.order:
        if nid not in part or nid in ev_entered_or_dispatched or nid in res or status.get(nid) in ("inactive", "blocked"):
            continue
        if all((d not in part) or d in res for d in world.all_deps(nid)):
            out.append(nid)
    return out, res


def started_before(ctrl, n):
    """ids dispatched (or entered inline) before event index n"""
    out = set()
    for e in ctrl.events[:n]:
        if e["kind"] == "dispatch":
            out.add(e["node"])
        elif e["kind"] == "enter":
            out.add(e["node"])
    return out


def check_run(world, ctrl, outcome, props, status, val):
    """-> {prop: [violations]}"""
    V = {p: [] for p in props}
    part = world.participating()
    kind, payload = outcome
    maxc = world.max_concurrency
    pooled = lambda n: world.nodes[n].get("res", "thread") in ("thread", "async")  # noqa: E731
    failed_any = [n for n in world.order if status.get(n) == "fails"]

    def add(p, msg):
        if p in V:
            V[p].append(msg)

    # ---------------- per event
    exited_at = {}
    for e in ctrl.events:
        if e["kind"] == "exit":
            exited_at[e["node"]] = e["n"]
    observed_failure_at = None
    for e in ctrl.events:
        if e["kind"] == "wait_return":
            if any(d in ctrl.failed for d in e["done"]) and observed_failure_at is None:
                observed_failure_at = e["n"]
    inline_fail = [e for e in ctrl.events if e["kind"] == "exit" and not e["ok"]]
    for e in ctrl.events:
        k = e["kind"]
        if k == "enter":
            n = e["node"]
            if n not in world.nodes:
                continue
            # C02: every participating dependency has returned
            for d in world.all_deps(n):
                if d in part and status.get(d) != "inactive" and d not in [x["node"] for x in ctrl.events[: e["n"]] if x["kind"] == "exit"]:
                    add("C02", f"{n} entered before its dependency {d} returned")
            # C04: thread of execution
            if world.nodes[n].get("res", "thread") == "main" and not e["inline"]:
                add("C04", f"main-thread node {n} was not run inline on the invoking thread")
            if pooled(n) and e["inline"]:
                add("C04", f"pooled node {n} ran on the invoking thread")
            # C05: overlap (interval semantics: pooled nodes in flight count as possibly running)
            others = [x for x in e["inflight"] if x != n] + [x for x in e["running_now"] if x != n]
            if world.nodes[n].get("seq") and others:
                add("C05", f"sequential node {n} entered while {sorted(set(others))} in flight")
            seq_others = [x for x in others if world.nodes.get(x, {}).get("seq")]
            if seq_others:
                add("C05", f"{n} entered while sequential node(s) {sorted(set(seq_others))} in flight")
            if status.get(n) == "inactive":
                add("C10", f"deactivated node {n} was executed")
                add("C03", f"deactivated node {n} was executed")
            if n not in part:
                add("C03", f"node {n} outside the selection (or already computed) was executed")
                add("C12", f"node {n} outside the selection was executed")
                add("C11", f"node {n} already computed was executed again")
            if status.get(n) == "blocked":
                add("C14", f"{n} depends on a failed node and was started")
        if k == "dispatch":
            n = e["node"]
            if n not in world.nodes:
                continue
            infl = [x for x in e["inflight_before"]]
            if pooled(n) and len([x for x in infl if pooled(x)]) + 1 > maxc:
                add("C04", f"{n} dispatched with {len(infl)} pooled nodes already in flight (limit {maxc})")
            expect = {"thread": "submit", "async": "ensure_future"}.get(world.nodes[n].get("res", "thread"))
            if expect and e["how"] != expect:
                add("C04", f"{n} ({world.nodes[n].get('res')}) dispatched through {e['how']}")
            if world.nodes[n].get("seq") and infl:
                add("C05", f"sequential node {n} dispatched with {infl} in flight")
            if any(world.nodes.get(x, {}).get("seq") for x in infl):
                add("C05", f"{n} dispatched while a sequential node is in flight")
            for d in world.all_deps(n):
                if d in part and status.get(d) != "inactive" and d not in e["exited"]:
                    add("C02", f"{n} dispatched before its dependency {d} returned")
            if e["n"] in [x["n"] for x in ctrl.events] and ctrl.dispatched.count(n) > 1:
                add("C03", f"{n} dispatched {ctrl.dispatched.count(n)} times")
            # C06: highest compound priority among ready active nodes
            rdy, _ = ready_active(world, e["exited"], set(started_before(ctrl, e["n"])) - {n}, ctrl.failed, status)
            best = max([world.compound_priority(x) for x in rdy] + [world.compound_priority(n)])
            if world.compound_priority(n) < best:
                add("C06", f"{n} (cp {world.compound_priority(n)}) dispatched while {[x for x in rdy if world.compound_priority(x) == best]} (cp {best}) was ready")
            if observed_failure_at is not None and e["n"] > observed_failure_at:
                add("C14", f"{n} dispatched after a failure had been observed")
        if k == "enter" and e["inline"]:
            n = e["node"]
            if n in world.nodes:
                rdy, _ = ready_active(world, [x["node"] for x in ctrl.events[: e["n"]] if x["kind"] == "exit"], set(started_before(ctrl, e["n"])) - {n}, ctrl.failed, status)
                best = max([world.compound_priority(x) for x in rdy] + [world.compound_priority(n)])
                if world.compound_priority(n) < best:
                    add("C06", f"{n} (cp {world.compound_priority(n)}) run inline while a node with cp {best} was ready")
                infl = [x for x in e["inflight"]]
                if world.nodes[n].get("seq") and infl:
                    add("C05", f"sequential main-thread node {n} run with {infl} in flight")
        if k == "wait" and e["blocking"]:
            infl = e["inflight"]
            started = started_before(ctrl, e["n"])
            rdy, _ = ready_active(world, e["exited"], started, ctrl.failed, status)
            seq_running = any(world.nodes.get(x, {}).get("seq") for x in infl)
            best_seq = False
            if rdy:
                b = max(world.compound_priority(x) for x in rdy)
                best_seq = any(world.nodes[x].get("seq") and world.compound_priority(x) == b for x in rdy)
            if not (len(infl) >= maxc or not rdy or seq_running or best_seq):
                kinds = {world.nodes[x].get("res", "thread") for x in infl if x in world.nodes}
                # known finding KF-C08-mixed: the conc wait of a pair whose async wait blocked just before
                prev = [x for x in ctrl.events[: e["n"]] if x["kind"] in ("wait", "dispatch") or (x["kind"] == "enter" and x["inline"])]
                paired = e["wkind"] == "conc" and prev and prev[-1]["kind"] == "wait" and prev[-1]["wkind"] == "async" and prev[-1]["blocking"]
                tag = "[KF-C08-mixed] " if paired else ""
                add("C08", f"{tag}blocked on {e['wkind']} wait with {len(infl)}/{maxc} in flight {infl} ({sorted(kinds)}) while {rdy} ready")
            unwatched = [x for x in e.get("inflight_kind", []) if x not in e["running"]]
            if unwatched:
                add("C08", f"blocking {e['wkind']} wait watches {e['running']} but not the in-flight {unwatched}: their completion frees a slot without waking the scheduler")
            if e["return_when"] != FIRST_COMPLETED and not seq_running:
                add("C08", f"waits for ALL of {e['running']} with {infl} in flight and no sequential node running")
        if k == "pool_exit" and e["inflight"]:
            add("C17", f"pool closed with {e['inflight']} in flight")
    # ---------------- whole run
    if kind == "return" and getattr(ctrl, "executor", None) is not None and not ctrl.executor.closed:
        # (a failing call leaves its pool open in the unchanged code as well: only the normal return is constrained)
        for p in ("C14", "C17"):
            add(p, "the call returned normally without closing the worker pool it handed nodes to: the pool outlives the call, so nodes queued on it (by this or a later call) can start after their call has ended / failed")
    for n in world.order:
        cnt = ctrl.entered.count(n)
        if cnt > 1:
            add("C03", f"{n} executed {cnt} times")
    if kind == "nonterminating":
        add("C09", f"scheduler did not terminate: {payload}")
    if kind == "return":
        for n in world.order:
            if n in part and status.get(n) == "runs" and n not in ctrl.exited:
                add("C03", f"selected active node {n} never ran although the call returned normally")
                add("C09", f"returned normally while selected active node {n} has not run")
                if world.nodes[n].get("active"):
                    add("C10", f"node {n} was not executed although the value its twz_active refers to ({world.nodes[n]['active']}) is truthy")
        if failed_any and any(status.get(n) == "fails" and n in ctrl.entered for n in world.order):
            add("C14", f"call returned normally although {ctrl.failed} failed")
    if kind == "raise":
        exc = payload
        if not ctrl.failed:
            add("C14", f"call raised {type(exc).__name__}: {exc} without any node failure (internal scheduler error)")
            add("C09", f"call raised {type(exc).__name__} without any node failure")
        else:
            from tawazi.errors import TawaziBaseException

            nid = None
            cause = exc.__cause__ if isinstance(exc, TawaziBaseException) else exc
            from harness.control import NodeFault

            if not isinstance(cause, NodeFault):
                add("C14", f"exception {type(exc).__name__}({exc}) does not carry the node's exception as cause")
            else:
                nid = cause.args[0]
                if isinstance(exc, TawaziBaseException) and (nid not in str(exc) or world.nodes[nid].get("loc", "harness.py") .split(":")[0] not in str(exc)):
                    add("C14", f"exception message {exc} does not identify node {nid} and its call location")
    return {p: v for p, v in V.items()}
