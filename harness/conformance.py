"""Conformance test of the TRUSTED library contracts (pyvc/lib.py, contracts/scheduler.py, DESIGN 3.3): every clause the
proofs assume about networkx / concurrent.futures / asyncio / copy / pickle / functools is evaluated on the real
libraries over random inputs.  This does not turn an assumption into a proof; it catches a wrong assumption (for
instance after an upgrade of networkx)."""
from __future__ import annotations

import asyncio
import copy
import functools
import os
import pickle
import random
import sys
import threading
from concurrent.futures import ALL_COMPLETED, FIRST_COMPLETED, ThreadPoolExecutor, wait

REPO = os.environ.get("VERIF_REPO", "/repo")
if sys.path[0] != REPO:
    sys.path.insert(0, REPO)


def check_conformance(seed, n_cases=150):
    import networkx as nx
    from networkx import NetworkXNoCycle, find_cycle

    from tawazi._dag.digraph import DiGraphEx
    from tawazi._helpers import StrictDict

    rnd = random.Random(seed)
    viol, cases = [], 0

    def bad(msg):
        viol.append(dict(kind="history", check="conformance", seed=seed, index=cases, violations=[f"trusted library contract does not hold: {msg}"]))

    for _ in range(n_cases):
        cases += 1
        n = rnd.randint(1, 6)
        nodes = [f"n{i}" for i in range(n)]
        edges = {(a, b) for a in nodes for b in nodes if a != b and rnd.random() < 0.3}
        if rnd.random() < 0.6:  # mostly acyclic
            edges = {(a, b) for a, b in edges if a < b}
        g = DiGraphEx()
        g.add_nodes_from(nodes)
        g.add_edges_from(edges)
        for x in nodes:
            g.debug[x], g.setup[x], g.compound_priority[x], g.tag[x] = rnd.random() < 0.3, rnd.random() < 0.3, rnd.randint(-2, 5), ["t"]
        pred = {x: {a for a, b in edges if b == x} for x in nodes}
        succ = {x: {b for a, b in edges if a == x} for x in nodes}

        def reach(s, E=succ):
            out, st = {s}, [s]
            while st:
                for y in E[st.pop()]:
                    if y not in out:
                        out.add(y)
                        st.append(y)
            return out

        # degree views, successors / predecessors
        for x in nodes:
            if g.in_degree[x] != len(pred[x]) or g.out_degree[x] != len(succ[x]) or set(g.predecessors(x)) != pred[x] or set(g.successors(x)) != succ[x]:
                bad(f"degree / neighbour views of {x}")
        if dict(g.in_degree) != {x: len(pred[x]) for x in nodes} or len(g) != n or set(g) != set(nodes) or set(g.nodes) != set(nodes):
            bad("iteration over in_degree / len / membership")
        # traversal
        s0 = rnd.choice(nodes)
        if set(nx.dfs_tree(g, s0).nodes()) != reach(s0):
            bad("dfs_tree(G, s).nodes() = nodes reachable from s (s included)")
        if nx.descendants(g, s0) != reach(s0) - {s0} or nx.ancestors(g, s0) != reach(s0, pred) - {s0}:
            bad("descendants / ancestors = strict reachability")
        for fn in (lambda: nx.dfs_tree(g, "absent").nodes(), lambda: nx.descendants(g, "absent"), lambda: nx.ancestors(g, "absent")):
            try:
                fn()
                bad("traversal from a node outside the graph must raise")
            except (nx.NetworkXError, KeyError):
                pass
        acyclic = all(x not in reach(y) for x in nodes for y in succ[x])
        try:
            find_cycle(g)
            if acyclic:
                bad("find_cycle returned a cycle for an acyclic graph")
        except NetworkXNoCycle:
            if not acyclic:
                bad("find_cycle raised NetworkXNoCycle for a cyclic graph")
        # induced sub-graphs are fresh instances of the class with EMPTY tables; copies / deep copies
        S = set(rnd.sample(nodes, rnd.randint(0, n)))
        for sub in (g.subgraph(S), nx.induced_subgraph(g, S), g.subgraph(S).copy()):
            if set(sub.nodes) != S or set(sub.edges) != {(a, b) for a, b in edges if a in S and b in S} or not isinstance(sub, DiGraphEx):
                bad("subgraph(S) is the induced sub-graph, of the same class")
            if any(sub.debug[x] or sub.setup[x] or sub.compound_priority[x] or sub.tag[x] is not None for x in S):
                bad("a sub-graph / its copy is built by G.__class__(): its DiGraphEx tables are the empty defaults")
        c = g.copy()
        if set(c.nodes) != set(nodes) or set(c.edges) != edges or any(c.compound_priority[x] for x in nodes):
            bad("G.copy(): same nodes and edges, class-default tables")
        d = copy.deepcopy(g)
        if set(d.nodes) != set(nodes) or set(d.edges) != edges or d.compound_priority != g.compound_priority or d.debug != g.debug or d.compound_priority is g.compound_priority:
            bad("deepcopy(G): equal, unshared, tables included")
        # removal
        r = rnd.choice(nodes)
        d.remove_node(r)
        if set(d.nodes) != set(nodes) - {r} or set(d.edges) != {(a, b) for a, b in edges if r not in (a, b)} or set(g.nodes) != set(nodes):
            bad("remove_node removes the node and its edges, from that graph only")
        d2 = copy.deepcopy(g)
        d2.remove_nodes_from(S | {"absent"})
        if set(d2.nodes) != set(nodes) - S:
            bad("remove_nodes_from removes exactly the listed nodes (unknown ones are ignored)")
        # defaultdict tables: a read of a missing key yields the default
        if DiGraphEx().debug["nobody"] is not False or DiGraphEx().compound_priority["nobody"] != 0 or DiGraphEx().tag["nobody"] is not None:
            bad("defaultdict tables")
        # copy / pickle / reduce
        sd = StrictDict((f"k{i}", rnd.randint(0, 9)) for i in range(rnd.randint(0, 4)))
        cp = copy.copy(sd)
        if cp != sd or cp is sd or not isinstance(cp, StrictDict):
            bad("copy.copy(StrictDict): equal, distinct object, same class")
        if pickle.loads(pickle.dumps(dict(sd), protocol=pickle.HIGHEST_PROTOCOL)) != dict(sd):
            bad("pickle round trip")
        path = [rnd.choice(["a", "b"]) for _ in range(rnd.randint(0, 3))]
        v = {"a": {"a": {"a": 1, "b": 2}, "b": {"a": 3, "b": 4}}, "b": {"a": {"a": 5, "b": 6}, "b": {"a": 7, "b": 8}}}
        exp = v
        for k_ in path:
            exp = exp[k_]
        if functools.reduce(lambda obj, key: obj.__getitem__(key), path, v) != exp:
            bad("functools.reduce is a left fold")
        # collections.Counter (clause assumed by contracts/dagadmin.py:_Counter for detect_duplicates)
        from collections import Counter

        seq = [rnd.choice(nodes) for _ in range(rnd.randint(0, 6))]
        items = list(Counter(seq).items())
        if len({k for k, _ in items}) != len(items) or {k for k, _ in items} != set(seq):
            bad("Counter.items() enumerates each distinct element once")
        for k_, c_ in items:
            if c_ != sum(1 for e in seq if e == k_) or (c_ > 1) != any(seq[a] == k_ == seq[b] for a in range(len(seq)) for b in range(len(seq)) if a != b):
                bad("Counter counts occurrences; > 1 iff two different indices")
    # concurrent.futures / asyncio
    cases += 1
    main = threading.get_ident()
    gate = threading.Event()
    err = ValueError("boom")

    def quick():
        return threading.get_ident()

    def blocked():
        gate.wait(5)
        return "late"

    def failing():
        raise err

    with ThreadPoolExecutor(max_workers=3) as ex:
        f1, f2, f3 = ex.submit(quick), ex.submit(blocked), ex.submit(failing)
        done, not_done = wait({f1, f2, f3}, return_when=FIRST_COMPLETED)
        if not done or (done | not_done) != {f1, f2, f3} or (done & not_done) or not all(f.done() for f in done):
            bad("wait(FIRST_COMPLETED): a partition with a non-empty, finished `done` part")
        if f1.result() == main:
            bad("a submitted callable runs on a pool thread, not on the submitting thread")
        try:
            f3.result()
            bad("Future.result() re-raises the callable's exception")
        except ValueError as e:
            if e is not err:
                bad("Future.result() re-raises the callable's own exception object")
        gate.set()
        done, not_done = wait({f1, f2, f3}, return_when=ALL_COMPLETED)
        if not_done or done != {f1, f2, f3}:
            bad("wait(ALL_COMPLETED) returns everything as done")
        if wait(set(), return_when=FIRST_COMPLETED) != (set(), set()):
            bad("wait of an empty set returns at once")

    async def aio():
        loop = asyncio.get_running_loop()
        with ThreadPoolExecutor(max_workers=2) as ex2:
            t1 = asyncio.ensure_future(loop.run_in_executor(ex2, quick))
            t2 = asyncio.ensure_future(loop.run_in_executor(ex2, failing))
            done_, pend_ = await asyncio.wait({t1, t2}, return_when=asyncio.ALL_COMPLETED)
            if pend_ or done_ != {t1, t2}:
                bad("asyncio.wait(ALL_COMPLETED)")
            if t1.result() == main:
                bad("run_in_executor runs on a pool thread")
            try:
                t2.result()
                bad("asyncio task result re-raises")
            except ValueError as e:
                if e is not err:
                    bad("asyncio task re-raises the callable's own exception object")

    asyncio.run(aio())
    return viol, cases
