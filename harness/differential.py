"""Differential check of the REWRITE (pyvc/rewrite.py rules R1-R11 + the builtin overrides of pyvc/engine.py): the
mechanically rewritten body of a function under contract -- with the loop-cut scaffolding of its contract in place -- is
executed by CPython on CONCRETE inputs in the function's real module namespace and compared with the untouched
function on the same inputs (returned value or exception type, and the final state of the mutable arguments).
On concrete operands every helper must compute exactly what Python computes.  A divergence is a defect of the
checker, not of tawazi.  (This tests trusted-base item 1; it does not prove it.)"""
from __future__ import annotations

import copy
import os
import random
import sys

REPO = os.environ.get("VERIF_REPO", "/repo")
if sys.path[0] != REPO:
    sys.path.insert(0, REPO)
HERE = os.path.dirname(os.path.dirname(os.path.abspath(__file__)))
if HERE not in sys.path:
    sys.path.insert(0, HERE)


def rewritten(module, qualname, contract=None):
    import importlib

    from pyvc import engine
    from pyvc.rewrite import load_function, rewrite_function

    mod = importlib.import_module(module)
    path = os.path.join(REPO, *module.split(".")) + ".py"
    fn_ast, _, _ = load_function(path, qualname)
    specs = dict(getattr(contract, "loops", {}) or {}) if contract is not None else {}
    src, _ = rewrite_function(fn_ast, specs, rename="__f", nested_stubs=())
    ns = dict(vars(mod))
    ns.update(engine._BUILTIN_OVERRIDES)
    ns["__vc"] = engine.VC(f"diff.{qualname}", specs)
    exec(compile(src, f"<{qualname} rewritten (differential)>", "exec"), ns)
    obj = mod
    for part in qualname.split("."):
        obj = getattr(obj, part) if not isinstance(obj, dict) else obj[part]
    return ns["__f"], obj


ENGINE_EXC = ("Unsupported", "UnsupportedAttribute", "ContractBindError")
SKIPPED = []  # functions whose current shape the rewrite / engine cannot run at all (they are *undecided* in the deductive run)


def try_rewritten(module, qualname, contract):
    """the rewritten function, or (None, None) when the engine cannot bind to / does not support the current shape"""
    try:
        return rewritten(module, qualname, contract)
    except Exception as e:  # noqa: BLE001
        if type(e).__name__ in ENGINE_EXC or isinstance(e, (SyntaxError, KeyError, AttributeError)):
            SKIPPED.append(f"{qualname}: {type(e).__name__}: {e}")
            return None, None
        raise


def engine_gave_up(o):
    return o[0] == "raise" and o[1] in ENGINE_EXC


def outcome(fn, args):
    try:
        r = fn(*args)
        return ("return", r)
    except BaseException as e:  # noqa: BLE001
        return ("raise", type(e).__name__)


def norm(v):
    import networkx as nx

    if isinstance(v, nx.DiGraph):
        tables = tuple(sorted((k, repr(t.get(k))) for t in (getattr(v, "debug", {}), getattr(v, "setup", {}), getattr(v, "compound_priority", {}), getattr(v, "tag", {})) for k in t))
        return ("graph", tuple(sorted(v.nodes)), tuple(sorted(v.edges)), tables)
    if type(v).__name__ == "SSet" and getattr(v, "sort", 1) is None:
        return ("set", ())  # the engine's empty-set literal (it only becomes typed when it meets a symbolic operand)
    if isinstance(v, (set, frozenset)):
        return ("set", tuple(sorted(map(repr, v))))
    if isinstance(v, dict):
        return ("dict", tuple(sorted((repr(k), norm(x)) for k, x in v.items())))
    if isinstance(v, (list, tuple)):
        return (type(v).__name__, tuple(norm(x) for x in v))
    return repr(v)


def check_differential(seed, n_cases=60):
    from contracts import digraph as CD
    from contracts import digraph_sched as CS
    from contracts import graphbuild as CG
    from contracts import values as CV
    from harness.control import World
    from tawazi._dag.digraph import DiGraphEx
    from tawazi._helpers import StrictDict
    from tawazi.node import UsageExecNode

    rnd = random.Random(seed)
    viol, cases = [], 0
    del SKIPPED[:]

    def rand_graph():
        n = rnd.randint(1, 6)
        nodes = [f"n{i}" for i in range(n)]
        g = DiGraphEx()
        g.add_nodes_from(nodes)
        g.add_edges_from((a, b) for a in nodes for b in nodes if a < b and rnd.random() < 0.35)
        for x in nodes:
            g.debug[x], g.setup[x], g.compound_priority[x] = rnd.random() < 0.3, False, rnd.randint(-2, 5)
            g.tag[x] = rnd.choice([None, ["t1"], ["t1", "t2"]])
        return g, nodes

    units = [
        ("tawazi._dag.digraph", "DiGraphEx.root_nodes", None, lambda g, ns: (g,), True),
        ("tawazi._dag.digraph", "DiGraphEx.leaf_nodes", None, lambda g, ns: (g,), True),
        ("tawazi._dag.digraph", "DiGraphEx.debug_nodes", None, lambda g, ns: (g,), True),
        ("tawazi._dag.digraph", "DiGraphEx.remove_root_node", None, lambda g, ns: (g, rnd.choice(ns)), False),
        ("tawazi._dag.digraph", "DiGraphEx.remove_any_root_node", CD.RemoveAnyRootNode(), lambda g, ns: (g,), False),
        ("tawazi._dag.digraph", "DiGraphEx.single_node_successors", None, lambda g, ns: (g, rnd.choice(ns + ["absent"])), False),
        ("tawazi._dag.digraph", "DiGraphEx.multiple_nodes_successors", None, lambda g, ns: (g, rnd.sample(ns, rnd.randint(0, len(ns)))), False),
        ("tawazi._dag.digraph", "DiGraphEx.ancestors_of_iter", None, lambda g, ns: (g, rnd.sample(ns, rnd.randint(0, len(ns)))), False),
        ("tawazi._dag.digraph", "DiGraphEx.minimal_induced_subgraph", None, lambda g, ns: (g, rnd.sample(ns + ["absent"], rnd.randint(0, len(ns)))), False),
        ("tawazi._dag.digraph", "DiGraphEx.make_subgraph", None, lambda g, ns: (g, rnd.choice([None, rnd.sample(ns, 1)]), rnd.choice([None, rnd.sample(ns, 1)]), rnd.choice([None, rnd.sample(ns, 1)])), False),
        # a `while` loop under contract is ALWAYS cut (its condition is only known at run time), so the cut scaffolding cannot run on
        # concrete values: include_debug_nodes is compared without its loop contracts (expression-level rules only)
        ("tawazi._dag.digraph", "DiGraphEx.include_debug_nodes", None, lambda g, ns: (g, rnd.sample(ns, rnd.randint(0, len(ns)))), False),
        ("tawazi._dag.digraph", "DiGraphEx.assign_compound_priority", CD.AssignCompoundPriority(), lambda g, ns: (g,), False),
        ("tawazi._dag.digraph", "DiGraphEx.get_tagged_nodes", None, lambda g, ns: (g, rnd.choice(["t1", "t2", "zz"])), False),
    ]
    built = {}
    for mod, qn, contract, _, _ in units:
        fr_, orig_ = try_rewritten(mod, qn, contract)
        if fr_ is not None:
            built[qn] = (fr_, orig_)
    for _ in range(n_cases):
        g0, ns = rand_graph()
        for mod, qn, contract, mk, is_prop in units:
            if qn not in built:
                continue
            fr, orig = built[qn]
            if isinstance(orig, property):
                orig = orig.fget
            cases += 1
            st = rnd.getstate()
            a1 = mk(copy.deepcopy(g0), ns)
            rnd.setstate(st)
            a2 = mk(copy.deepcopy(g0), ns)
            o1, o2 = outcome(fr, a1), outcome(orig, a2)
            same = o1[0] == o2[0] and (norm(o1[1]) == norm(o2[1])) and norm(a1[0]) == norm(a2[0]) and norm(list(a1[1:])) == norm(list(a2[1:]))
            if not same and not engine_gave_up(o1):
                viol.append(dict(kind="history", check="differential", index=cases, violations=[f"rewritten {qn} diverges from the original on {norm(list(a2))[:1]}...: rewritten -> {str(o1)[:160]}, original -> {str(o2)[:160]}"]))
    # value-level helpers
    fr_grv, orig_grv = try_rewritten("tawazi._dag.helpers", "get_return_values", None)
    fr_ext, orig_ext = try_rewritten("tawazi._dag.helpers", "extend_results_with_args", CV.ExtendResultsWithArgs())
    fr_res, orig_res = try_rewritten("tawazi.node.uxn", "UsageExecNode.result", None)
    for _ in range(n_cases):
        results = StrictDict({f"k{i}": rnd.choice([None, 3, {"a": [1, 2]}, (7, 8)]) for i in range(rnd.randint(0, 4))})
        keys = list(results) + ["absent"]
        u = lambda: UsageExecNode(rnd.choice(keys), rnd.choice([[], ["a"], ["a", 0], [1]]))  # noqa: E731
        shape = rnd.choice([None, u(), (u(), u()), [u()], {"x": u(), "y": u()}, 5])
        cases += 1
        o1, o2 = (outcome(fr_grv, (shape, copy.deepcopy(results))), outcome(orig_grv, (shape, copy.deepcopy(results)))) if fr_grv else (("skip", 0), ("skip", 0))
        if (o1[0] != o2[0] or norm(o1[1]) != norm(o2[1])) and not engine_gave_up(o1):
            viol.append(dict(kind="history", check="differential", index=cases, violations=[f"rewritten get_return_values diverges: {str(o1)[:160]} vs {str(o2)[:160]}"]))
        inputs = [UsageExecNode(k) for k in keys[: rnd.randint(0, len(keys))]]
        args = tuple(rnd.randint(0, 9) for _ in range(rnd.randint(0, len(inputs) + 1)))
        r1, r2 = copy.deepcopy(results), copy.deepcopy(results)
        cases += 1
        o1, o2 = (outcome(fr_ext, (r1, inputs, args)), outcome(lambda r, i, a: orig_ext(r, i, *a), (r2, inputs, args))) if fr_ext else (("skip", 0), ("skip", 0))
        if (o1[0] != o2[0] or norm(o1[1]) != norm(o2[1]) or (fr_ext and norm(r1) != norm(r2))) and not engine_gave_up(o1):
            viol.append(dict(kind="history", check="differential", index=cases, violations=[f"rewritten extend_results_with_args diverges: {str(o1)[:160]} vs {str(o2)[:160]}"]))
        ux = u()
        cases += 1
        o1, o2 = (outcome(fr_res, (ux, results)), outcome(orig_res, (ux, results))) if fr_res else (("skip", 0), ("skip", 0))
        if (o1[0] != o2[0] or norm(o1[1]) != norm(o2[1])) and not engine_gave_up(o1):
            viol.append(dict(kind="history", check="differential", index=cases, violations=[f"rewritten UsageExecNode.result diverges: {str(o1)[:160]} vs {str(o2)[:160]}"]))
    # graph construction on real node tables
    fr_fen, orig_fen = try_rewritten("tawazi._dag.digraph", "DiGraphEx.from_exec_nodes", CG.FromExecNodes())
    for _ in range(n_cases if fr_fen else 0):
        n = rnd.randint(1, 4)
        ids = ["a", "b", "c", "d"][:n]
        nodes = []
        for i, nid in enumerate(ids):
            pool = ids if rnd.random() < 0.3 else ids[:i]
            nd = dict(id=nid, deps=[(rnd.choice(pool), []) for _ in range(rnd.randint(0, 2)) if pool], prio=rnd.randint(-1, 3))
            if rnd.random() < 0.3:
                nd["setup"] = True
            if rnd.random() < 0.3:
                nd["tag"] = rnd.choice(["t", ("t", "u")])
            nodes.append(nd)
        w = World(nodes, inputs=["in0"] if rnd.random() < 0.5 else [])
        try:
            xns = w.build_exec_nodes()
        except ValueError:
            continue
        inp = [UsageExecNode(i) for i in w.inputs]
        cases += 1
        o1, o2 = outcome(fr_fen, (None, inp, xns)), outcome(lambda i, x: DiGraphEx.from_exec_nodes(i, x), (inp, xns))
        if (o1[0] != o2[0] or norm(o1[1]) != norm(o2[1])) and not engine_gave_up(o1):
            viol.append(dict(kind="history", check="differential", index=cases, violations=[f"rewritten from_exec_nodes diverges: {str(o1)[:200]} vs {str(o2)[:200]}"]))
    return viol, cases
