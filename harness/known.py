"""Witnesses of the open known findings, replayed on the real code on every run: a KNOWN-FINDING line is printed
only while the witness still reproduces."""
from __future__ import annotations

import os
import sys
import warnings

REPO = os.environ.get("VERIF_REPO", "/repo")
if sys.path[0] != REPO:
    sys.path.insert(0, REPO)


def kf_c10_index():
    from tawazi import dag, xn

    @xn
    def mk():
        return {"k": 1}

    @xn
    def use(v):
        return ("use", v)

    @dag
    def pipe():
        m = mk(twz_active=False)
        return use(m["k"])

    try:
        return pipe() != ("use", None)
    except BaseException as e:  # noqa: BLE001
        c = e.__cause__ or e
        return isinstance(c, AttributeError)


def kf_c10_passthrough():
    from tawazi import dag, xn

    @xn
    def inc(a):
        return a + 1

    @dag
    def inner(x, d=5):
        return inc(x), 7, d

    @dag
    def outer(x):
        a, c, d = inner(x, twz_active=False)
        return a, c, d

    try:
        return outer(1) != (None, None, None)
    except BaseException:  # noqa: BLE001
        return True


def kf_c19_overlap():
    from tawazi import dag, xn

    @xn
    def a():
        return 1

    @xn
    def b(v):
        return v + 1

    @dag
    def pipe():
        return b(a())

    with warnings.catch_warnings():
        warnings.simplefilter("ignore")
        try:
            c = pipe.compose("cmp", [a], [a, b])
            return c(10) != (10, 11)
        except BaseException:  # noqa: BLE001
            return True


def kf_c20_twice():
    from tawazi import dag, xn

    @xn
    def inc(a):
        return a + 1

    @dag
    def inner(x):
        return inc(x)

    try:
        @dag
        def outer(x):
            return inner(inner(x))

        return outer(1) != 3
    except BaseException:  # noqa: BLE001
        return True


WITNESS = {"KF-C10-index": kf_c10_index, "KF-C10-passthrough": kf_c10_passthrough, "KF-C19-overlap": kf_c19_overlap, "KF-C20-twice": kf_c20_twice}

if __name__ == "__main__":
    for k, f in WITNESS.items():
        print(k, "reproduces" if f() else "does not reproduce")
