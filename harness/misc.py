"""harness.misc -- bounded stand-ins that need real threads / a real event loop / sub-processes:
C16 (thread safety), C17 (concurrent awaits, loop stays free), C07 (priority table, hash seeds), C14 (profiling on)."""
from __future__ import annotations

import asyncio
import json
import os
import random
import subprocess
import sys
import threading
import time
import warnings

REPO = os.environ.get("VERIF_REPO", "/repo")
if sys.path[0] != REPO:
    sys.path.insert(0, REPO)

import tawazi  # noqa: E402
from tawazi import Resource, dag, xn  # noqa: E402
from tawazi.config import cfg  # noqa: E402
from tawazi.errors import TawaziUsageError  # noqa: E402
from tawazi.node import node as node_mod  # noqa: E402


def _join(ts, timeout=10):
    for t in ts:
        t.join(timeout)
    return [t for t in ts if t.is_alive()]


# =====================================================================================================================
def check_threads(seed, n_cases=6):
    rnd = random.Random(seed)
    viol, cases = [], 0

    @xn
    def inc(a):
        return ("inc", a)

    @xn
    def both(a, b):
        return ("both", a, b)

    @xn(setup=True)
    def const():
        return ("setup",)

    @dag(max_concurrency=2)
    def shared(x, y=("dy",)):
        return both(inc(x), y), const()

    shared.setup()

    # (a) concurrent calls of one DAG, each with its own arguments
    for rep in range(n_cases):
        cases += 1
        out = {}

        def call(i):
            out[i] = shared(("arg", i))

        ts = [threading.Thread(target=call, args=(i,)) for i in range(6)]
        [t.start() for t in ts]
        if _join(ts):
            viol.append(dict(kind="threads", case="concurrent_calls", violations=["concurrent calls did not terminate"]))
            break
        bad = {i: r for i, r in out.items() if r != (("both", ("inc", ("arg", i)), ("dy",)), ("setup",))}
        if bad or len(out) != 6:
            viol.append(dict(kind="threads", case="concurrent_calls", violations=[f"threads received foreign / wrong results: {bad}"]))
            break

    # (b) a build paused inside its describing function in thread A; thread B calls a shared DAG and a decorated function
    cases += 1
    inside, release = threading.Event(), threading.Event()
    built = {}

    def builder():
        def pausing(x):
            r = inc(x)
            inside.set()
            release.wait(5)
            return both(r, x)

        pausing.__qualname__ = pausing.__name__ = "pausing"
        built["dag"] = dag(pausing)

    ta = threading.Thread(target=builder)
    ta.start()
    res = {}
    if not inside.wait(5):
        viol.append(dict(kind="threads", case="paused_build", violations=["builder thread never reached its describing function"]))
    else:
        def other():
            try:
                res["call"] = ("return", shared(("b", 1)))
            except BaseException as e:  # noqa: BLE001
                res["call"] = ("raise", type(e).__name__, str(e)[:80])
            try:
                res["xn"] = ("return", inc(5))
            except BaseException as e:  # noqa: BLE001
                res["xn"] = ("raise", type(e).__name__)

        tb = threading.Thread(target=other)
        tb.start()
        tb.join(8)
        release.set()
        ta.join(8)
        v = []
        if res.get("call") != ("return", (("both", ("inc", ("b", 1)), ("dy",)), ("setup",))):
            v.append(f"calling a shared DAG while another thread is describing a DAG -> {res.get('call')!r}")
        # outside a build the default behaviour of calling a decorated function is TawaziUsageError
        if res.get("xn") != ("raise", "TawaziUsageError"):
            v.append(f"calling a decorated function while another thread is describing a DAG -> {res.get('xn')!r} (outside any DAG it raises TawaziUsageError)")
        d = built.get("dag")
        if d is None:
            v.append("the paused build did not produce a DAG")
        else:
            ids = sorted(d.exec_nodes)
            exp = sorted(["pausing>!>x", inc.id, both.id])
            if ids != exp:
                v.append(f"the DAG built while another thread was running contains {ids}, expected {exp}")
            elif d(3) != ("both", ("inc", 3), 3):
                v.append(f"the DAG built concurrently computes {d(3)!r}")
        if v:
            viol.append(dict(kind="threads", case="paused_build", violations=v))

    # (d) a SECOND BUILD is started (and has to wait for the build lock) while the first build is paused inside its
    #     describing function: both DAGs must come out as if built one after the other
    cases += 1
    inside2, release2, again2 = threading.Event(), threading.Event(), threading.Event()
    built2, errs2 = {}, {}

    def builder_a():
        def first(x):
            r = inc(x)
            inside2.set()
            release2.wait(5)
            # after the pause: a decorated function used before it (inc) and one the other build uses too (both)
            return both(r, inc(x))

        first.__qualname__ = first.__name__ = "first"
        built2["first_fn"] = first
        try:
            built2["a"] = dag(first)
        except BaseException as e:  # noqa: BLE001
            errs2["a"] = f"{type(e).__name__}: {str(e)[:80]}"
        # ... and LATER, with nothing else going on, the same thread builds another DAG: the overlapped builds must not
        # have left anything behind (a stale describing marker, somebody's tables as the module globals)
        again2.wait(8)

        def third(z):
            return both(inc(z), z)

        third.__qualname__ = third.__name__ = "third"
        try:
            built2["a_later"] = dag(third)
        except BaseException as e:  # noqa: BLE001
            errs2["a_later"] = f"{type(e).__name__}: {str(e)[:80]}"

    def builder_b():
        def second(y):
            return both(inc(y), inc(y))

        second.__qualname__ = second.__name__ = "second"
        built2["second_fn"] = second
        try:
            built2["b"] = dag(second)
        except BaseException as e:  # noqa: BLE001
            errs2["b"] = f"{type(e).__name__}: {str(e)[:80]}"

    ta2 = threading.Thread(target=builder_a)
    ta2.start()
    if inside2.wait(5):
        tb2 = threading.Thread(target=builder_b)
        tb2.start()
        time.sleep(0.3)  # B reaches the build lock (held by A) and waits there
        release2.set()
        tb2.join(8)
        time.sleep(0.1)
        from tawazi.node import node as _node_mod

        idle = (getattr(_node_mod, "describing_thread", None), len(_node_mod.exec_nodes), len(_node_mod.results), list(_node_mod.DAG_PREFIX), _node_mod.exec_nodes_lock.locked())
        again2.set()
        ta2.join(8)
        v = []
        if errs2:
            v.append(f"overlapping builds raised {errs2}")
        if "a" in built2 and "b" in built2 and idle != (None, 0, 0, [], False):
            v.append(f"after two overlapping builds the idle library holds (describing marker, #nodes, #results, prefix, locked) = {idle}")
        dl = built2.get("a_later")
        if dl is not None and (sorted(dl.exec_nodes) != sorted(["third>!>z", inc.id, both.id]) or dl(5) != ("both", ("inc", 5), 5)):
            v.append(f"the DAG built later by the thread whose build had been overlapped contains {sorted(dl.exec_nodes)} / computes {dl(5)!r}")
        da, db = built2.get("a"), built2.get("b")
        # "DAGs built concurrently are identical to those built one after the other": the same describing functions built
        # again now, alone, are the reference (node tables with their generated ids, and values)
        try:
            ref_a, ref_b = dag(built2["first_fn"]), dag(built2["second_fn"])
        except BaseException as e:  # noqa: BLE001
            ref_a = ref_b = None
            v.append(f"building the two DAGs one after the other (after the overlapping builds) raised {type(e).__name__}: {str(e)[:80]}")
        if da is not None and ref_a is not None and (sorted(da.exec_nodes) != sorted(ref_a.exec_nodes) or da(3) != ref_a(3) or da(3) != ("both", ("inc", 3), ("inc", 3))):
            v.append(f"the DAG whose build was overlapped by another build contains {sorted(da.exec_nodes)} / computes {da(3)!r}; built alone: {sorted(ref_a.exec_nodes)} / {ref_a(3)!r}")
        if db is not None and ref_b is not None and (sorted(db.exec_nodes) != sorted(ref_b.exec_nodes) or db(4) != ref_b(4) or db(4) != ("both", ("inc", 4), ("inc", 4))):
            v.append(f"the DAG built while waiting for the first build contains {sorted(db.exec_nodes)} / computes {db(4)!r}; built alone: {sorted(ref_b.exec_nodes)} / {ref_b(4)!r}")
        if v:
            viol.append(dict(kind="threads", case="overlapping_builds", violations=v))
    else:
        release2.set()
        viol.append(dict(kind="threads", case="overlapping_builds", violations=["builder thread never reached its describing function"]))

    # (c) concurrent builds == sequential builds, with the unlucky hand-over forced: T1 has just released the build
    #     lock, T2 acquires it and starts describing, then T1 finishes its clean-up
    cases += 1
    v = _handover_builds(inc, both)
    if v:
        viol.append(dict(kind="threads", case="concurrent_builds", violations=v))
    return viol, cases


def _handover_builds(inc, both):
    real = node_mod.exec_nodes_lock
    t2_inside = threading.Event()
    t1_released = threading.Event()
    first = {"tid": None}

    class Deleg:
        def acquire(self, *a, **k):
            return real.acquire(*a, **k)

        def release(self):
            real.release()

        def locked(self):
            return real.locked()

        def __enter__(self):
            real.acquire()
            if first["tid"] is None:
                first["tid"] = threading.get_ident()
            return self

        def __exit__(self, *a):
            real.release()
            if threading.get_ident() == first["tid"]:
                t1_released.set()
                t2_inside.wait(3)  # let the second builder get inside its describing function
            return False

    def mk(tag, pause):
        def f(x):
            a = inc(x)
            if pause:
                t2_inside.set()
                time.sleep(0.05)  # T1 finishes its exit path meanwhile
            return both(a, inc(a))

        f.__qualname__ = f.__name__ = f"build_{tag}"
        return f

    out, errs = {}, {}

    def build(tag, pause, wait_for=None):
        try:
            if wait_for is not None:
                wait_for.wait(3)
            out[tag] = dag(mk(tag, pause))
        except BaseException as e:  # noqa: BLE001
            errs[tag] = f"{type(e).__name__}: {str(e)[:100]}"

    node_mod.exec_nodes_lock = Deleg()
    try:
        t1 = threading.Thread(target=build, args=("one", False))
        t2 = threading.Thread(target=build, args=("two", True, t1_released))
        t1.start()
        t2.start()
        alive = _join([t1, t2], 10)
    finally:
        node_mod.exec_nodes_lock = real
    v = []
    if alive:
        v.append("concurrent builds did not terminate")
    for tag, e in errs.items():
        v.append(f"concurrent build of {tag} raised {e}")
    seq = dag(mk("seq", False))
    for tag, d in out.items():
        ids = sorted(i.replace(f"build_{tag}", "build_seq") for i in d.exec_nodes)
        if ids != sorted(seq.exec_nodes):
            v.append(f"DAG built concurrently ({tag}) has nodes {ids}; built alone: {sorted(seq.exec_nodes)}")
        elif d(1) != seq(1):
            v.append(f"DAG built concurrently ({tag}) computes {d(1)!r}, built alone {seq(1)!r}")
    return v


# =====================================================================================================================
def check_async(seed, n_cases=4):
    """C17: concurrent awaits are isolated; the loop keeps serving other coroutines while async-thread nodes run"""
    viol, cases = [], 0

    @xn(resource=Resource.async_thread)
    def slow(a):
        time.sleep(0.01)
        return ("slow", a)

    @xn(setup=True)
    def model():
        return ("model",)

    @xn
    def join(a, m):
        return ("join", a, m)

    @dag(is_async=True, max_concurrency=2)
    def adag(x):
        return join(slow(x), model())

    async def many(n):
        return await asyncio.gather(*[adag(("q", i)) for i in range(n)], return_exceptions=True)

    for n in (2, 5):
        cases += 1
        r = asyncio.run(many(n))
        bad = {i: x for i, x in enumerate(r) if x != ("join", ("slow", ("q", i)), ("model",))}
        if bad:
            viol.append(dict(kind="async", case=f"gather_{n}_first_awaits_with_unexecuted_setup", violations=[f"concurrent awaits got {bad!r}"]))
    # loop stays free: an async-thread node waits (in its worker thread) for a sibling coroutine of the same loop
    cases += 1
    ev = threading.Event()

    @xn(resource=Resource.async_thread)
    def waits_for_sibling():
        return ev.wait(3)

    @xn(resource=Resource.async_thread)
    def fails():
        raise ValueError("boom")

    @dag(is_async=True, max_concurrency=2)
    def waiting():
        return waits_for_sibling()

    async def sibling():
        await asyncio.sleep(0.05)
        ev.set()

    async def both():
        r, _ = await asyncio.gather(waiting(), sibling())
        return r

    if asyncio.run(both()) is not True:
        viol.append(dict(kind="async", case="loop_stays_free", violations=["the event loop did not serve a sibling coroutine while an async-thread node was running"]))
    # ... also when another node of the same execution has failed
    cases += 1
    ev2 = threading.Event()
    seen = {}

    @xn(resource=Resource.async_thread)
    def waits2():
        seen["released"] = ev2.wait(3)
        return seen["released"]

    @dag(is_async=True, max_concurrency=2)
    def failing():
        return waits2(), fails()

    async def sibling2():
        await asyncio.sleep(0.2)
        ev2.set()

    async def both2():
        return await asyncio.gather(failing(), sibling2(), return_exceptions=True)

    t0 = time.time()
    try:
        asyncio.run(both2())
    except BaseException:  # noqa: BLE001
        pass
    for _ in range(40):
        if "released" in seen:
            break
        time.sleep(0.1)
    if seen.get("released") is not True:
        viol.append(dict(kind="async", case="loop_stays_free_after_a_failure", violations=[f"after a node failure the loop did not serve the sibling coroutine while another node was still running ({time.time()-t0:.1f}s)"]))
    return viol, cases


# =====================================================================================================================
def check_priority_table(seed, n_cases=150, hash_seeds=()):
    """C07: the table is own + sum over the SET of distinct descendants, for the call and every executor"""
    from harness.histories import rand_world

    rnd = random.Random(seed)
    viol, cases = [], 0
    for idx in range(n_cases):
        from tawazi.config import cfg as _cfg

        with_debug = idx % 2 == 1  # every other case: debug nodes, RUN_DEBUG_NODES on (debug nodes are pulled into selections)
        w = rand_world(rnd, rnd.randint(2, 5), debug_p=0.5 if with_debug else 0.0)
        for nd in w.nodes.values():
            nd["prio"] = rnd.choice([-3, 0, 1, 2, 7])
        cases += 1
        d = w.build_dag()
        exp = {n: w.compound_priority(n) for n in w.order}
        v = []
        old_flag = _cfg.RUN_DEBUG_NODES
        _cfg.RUN_DEBUG_NODES = with_debug
        try:
            graphs = {"dag.graph_ids": d.graph_ids, "executor()": d.executor().graph, "executor(target=last)": d.executor(target_nodes=[w.order[-1]]).graph}
            rts = [n for n in w.order if not w.all_deps(n)]
            graphs["executor(root=first root)"] = d.executor(root_nodes=[rts[0]]).graph
            graphs["executor(exclude=last)"] = d.executor(exclude_nodes=[w.order[-1]]).graph
            nondbg = [n for n in w.order if not w.nodes[n].get("debug")]
            if with_debug and nondbg:
                graphs["executor(target=first non-debug node), debug nodes pulled in"] = d.executor(target_nodes=[nondbg[0]]).graph
        finally:
            _cfg.RUN_DEBUG_NODES = old_flag
        for where, g in graphs.items():
            bad = {n: (g.compound_priority[n], exp[n]) for n in g.nodes if g.compound_priority[n] != exp[n]}
            if bad:
                v.append(f"{where}: compound priority (got, own + sum over distinct descendants) {bad}")
        # a composed DAG: its node table is built from a *set* of ids (insertion order is not topological)
        try:
            with warnings.catch_warnings():
                warnings.simplefilter("ignore")
                cd = d.compose("cmp", [], [w.order[-1]])
            keep = set(cd.graph_ids.nodes)
            expc = {n: w.nodes[n]["prio"] + sum(w.nodes[m]["prio"] for m in w.descendants(n) if m in keep) for n in keep if n in w.nodes}
            bad = {n: (cd.graph_ids.compound_priority[n], expc[n]) for n in expc if cd.graph_ids.compound_priority[n] != expc[n]}
            if bad:
                v.append(f"composed DAG: compound priority (got, expected) {bad}")
        except ValueError:
            pass
        # a sequence of re-configurations of the SAME DAG object (seeded change C07_R: an incremental update of the table that
        # is right for one configuration and drifts from the second on): after every step the table of the DAG and of a new
        # executor is the closed form over the CURRENT priorities
        for step in range(3):
            tgt = rnd.choice(w.order) if step != 1 else tgt  # noqa: F821  (step 1 re-configures the node of step 0)
            newp = rnd.choice([p_ for p_ in (-3, 0, 1, 2, 7, 11) if p_ != w.nodes[tgt]["prio"]])
            try:
                d.config_from_dict({"nodes": {tgt: {"priority": newp}}})
            except Exception as e:  # noqa: BLE001
                v.append(f"config_from_dict(priority of {tgt}) raised {type(e).__name__}: {e}")
                break
            w.nodes[tgt]["prio"] = newp
            expn = {n: w.compound_priority(n) for n in w.order}
            for where, g in (("dag.graph_ids", d.graph_ids), ("executor()", d.executor().graph)):
                bad = {n: (g.compound_priority[n], expn[n]) for n in g.nodes if g.compound_priority[n] != expn[n]}
                if bad:
                    v.append(f"after re-configuration {step + 1} (priority of {tgt} := {newp}), {where}: compound priority (got, expected) {bad}")
        if v:
            viol.append(dict(kind="history", check="priority_table", seed=seed, index=idx, world=w.describe(), violations=v))
    if hash_seeds:
        cases += 1
        v = _hash_seed_runs(hash_seeds)
        if v:
            viol.append(dict(kind="script", check="hash_seeds", violations=v))
    return viol, cases


_HS_SCRIPT = r'''
import sys, json
sys.path.insert(0, sys.argv[1])
from tawazi import dag, xn
order = []
def mk(name, prio):
    def f(*a):
        order.append(name); return name
    f.__qualname__ = f.__name__ = name
    return xn(f, priority=prio)
names = ["alpha", "beta", "gamma", "delta", "eps", "zeta", "eta"]
ops = {n: mk(n, p) for n, p in zip(names, [1, 20, 300, 4000, 50000, 600000, 7000000])}
@dag(max_concurrency=1)
def pipe():
    a = ops["alpha"](); b = ops["beta"](a); c = ops["gamma"](a); d = ops["delta"](b, c)
    e = ops["eps"](a, d); f = ops["zeta"](c); g = ops["eta"](e, f)
    return g
pipe()
cmp = pipe.compose("cmp", [], ["eta"])
print(json.dumps(dict(order=order, table={k: pipe.graph_ids.compound_priority[k] for k in sorted(pipe.graph_ids.nodes)}, composed={k: cmp.graph_ids.compound_priority[k] for k in sorted(cmp.graph_ids.nodes)})))
'''


def _hash_seed_runs(hash_seeds):
    outs = {}
    for hs in hash_seeds:
        r = subprocess.run([sys.executable, "-c", _HS_SCRIPT, REPO], capture_output=True, text=True, env=dict(os.environ, PYTHONHASHSEED=str(hs)), timeout=120)
        if r.returncode != 0:
            return [f"sub-process with PYTHONHASHSEED={hs} failed: {r.stderr[-300:]}"]
        outs[hs] = r.stdout.strip().splitlines()[-1]
    if len(set(outs.values())) != 1:
        a, b = list(outs.items())[0], next(x for x in outs.items() if x[1] != list(outs.values())[0])
        return [f"compound priorities / execution order differ between PYTHONHASHSEED={a[0]}: {a[1]} and {b[0]}: {b[1]}"]
    d = json.loads(list(outs.values())[0])
    exp = {"alpha": 7654321, "beta": 7054020, "gamma": 7654300, "delta": 7054000, "eps": 7050000, "zeta": 7600000, "eta": 7000000}
    v = []
    if d["table"] != exp:
        v.append(f"table {d['table']} != own + sum over distinct descendants {exp}")
    if d["composed"] != exp:
        v.append(f"composed DAG's table {d['composed']} != {exp}")
    return v


# =====================================================================================================================
def check_profile(seed, n_cases=0):
    """C14 with profiling on: Profile.__exit__ must not swallow the node's exception (finite domain: 2 settings x
    {exception, no exception})"""
    from tawazi.profile import Profile

    viol, cases = [], 0
    for active in (True, False):
        for exc in (None, ValueError("x")):
            cases += 1
            p = Profile(active)
            p.__enter__()
            r = p.__exit__(type(exc) if exc else None, exc, None)
            if r:
                viol.append(dict(kind="profile", case=f"active={active} exc={exc!r}", violations=[f"Profile.__exit__ returns {r!r}: the exception leaving `with profiles[id]:` in ExecNode.execute would be swallowed"]))
    return viol, cases


# =====================================================================================================================
def check_graph_build(seed, n_cases=300):
    """bounded stand-in / replay source for the contracts of DiGraphEx.from_exec_nodes and add_exec_node: random node
    tables <= 5 nodes with positional / keyword / activation references in ANY direction (so cycles and self
    references occur), setup / debug flags, tags, DAG inputs; the real from_exec_nodes against an independent
    oracle: cyclic => NetworkXUnfeasible, setup node referencing an input => TawaziUsageError, otherwise nodes,
    edges, tables and compound priorities"""
    from networkx import NetworkXUnfeasible

    from harness.control import World
    from tawazi._dag.digraph import DiGraphEx
    from tawazi.errors import TawaziUsageError
    from tawazi.node import UsageExecNode

    rnd = random.Random(seed)
    viol, cases = [], 0
    names = ["a", "b", "c", "d", "e"]
    for idx in range(n_cases):
        n = rnd.randint(1, 5)
        ids = names[:n]
        n_in = rnd.randint(0, 2)
        inputs = [f"in{i}" for i in range(n_in)]
        acyclic_only = rnd.random() < 0.6
        nodes = []
        for i, nid in enumerate(ids):
            pool = (ids[:i] if acyclic_only else ids) + inputs
            nd = dict(id=nid, deps=[], kwdeps={}, prio=rnd.choice([-2, 0, 1, 3]))
            for _ in range(rnd.randint(0, 2)):
                if pool:
                    nd["deps"].append((rnd.choice(pool), rnd.choice([[], ["k"]])))
            if pool and rnd.random() < 0.3:
                nd["kwdeps"]["kw"] = (rnd.choice(pool), [])
            if pool and rnd.random() < 0.3:
                nd["active"] = (rnd.choice(pool), rnd.choice([[], ["t"]]))
            if rnd.random() < 0.25:
                nd["setup"] = True
            elif rnd.random() < 0.2:
                nd["debug"] = True
            if rnd.random() < 0.3:
                nd["tag"] = rnd.choice(["t1", ("t1", "t2")])
            nodes.append(nd)
        w = World(nodes, inputs=inputs)
        cases += 1
        refs = {nd["id"]: {d for d, _ in nd["deps"]} | {d for d, _ in nd["kwdeps"].values()} | ({nd["active"][0]} if nd.get("active") else set()) for nd in nodes}
        for i_ in inputs:
            refs[i_] = set()
        allids = ids + inputs
        succ = {a: {b for b in allids if a in refs[b]} for a in allids}

        def desc(a):
            seen_, st = set(), [a]
            while st:
                for b in succ[st.pop()]:
                    if b not in seen_:
                        seen_.add(b)
                        st.append(b)
            return seen_

        cyclic = any(a in desc(a) for a in allids)
        setup_on_input = any(nd.get("setup") and (refs[nd["id"]] & set(inputs)) for nd in nodes)
        v = []
        try:
            xns = w.build_exec_nodes()
        except ValueError:
            continue  # debug + setup on one node etc.: refused by ExecNode itself
        try:
            g = DiGraphEx.from_exec_nodes([UsageExecNode(i_) for i_ in inputs], xns)
        except TawaziUsageError:
            if not setup_on_input:
                v.append("[C11] TawaziUsageError although no setup node references a DAG input")
            g = None
        except NetworkXUnfeasible:
            if not cyclic:
                v.append("[C09] NetworkXUnfeasible although the dependency relation is acyclic")
            g = None
        else:
            if setup_on_input:
                v.append("[C11] a setup node that references a DAG input was accepted")
            if cyclic:
                v.append("[C09] a cyclic dependency relation was accepted (the scheduler would never finish)")
        if g is not None and not v:
            if set(g.nodes) != set(allids):
                v.append(f"[C03] nodes of the graph {sorted(g.nodes)} != keys of the node table {sorted(allids)}")
            exp_edges = {(d_, x_) for x_ in allids for d_ in refs[x_]}
            if set(g.edges) != exp_edges:
                v.append(f"[C02] edges {sorted(g.edges)} != references (positional, keyword, activation) {sorted(exp_edges)}")
            for nd in nodes:
                if bool(g.debug[nd["id"]]) != bool(nd.get("debug")) or bool(g.setup[nd["id"]]) != bool(nd.get("setup")):
                    v.append(f"[C13] debug/setup table of {nd['id']}: {g.debug[nd['id']]}/{g.setup[nd['id']]}")
                et = None if not nd.get("tag") else ([nd["tag"]] if isinstance(nd["tag"], str) else list(nd["tag"]))
                if g.tag[nd["id"]] != et:
                    v.append(f"[C12] tag table of {nd['id']}: {g.tag[nd['id']]} != {et}")
            if not cyclic:
                own = {nd["id"]: nd["prio"] for nd in nodes}
                for i_ in inputs:
                    own[i_] = 0
                bad = {a: (g.compound_priority[a], own[a] + sum(own[b] for b in desc(a))) for a in allids if g.compound_priority[a] != own[a] + sum(own[b] for b in desc(a))}
                if bad:
                    v.append(f"[C07] compound priority (got, own + sum over distinct descendants) {bad}")
        if v:
            viol.append(dict(kind="history", check="graph_build", seed=seed, index=idx, world=w.describe(), violations=v))
    return viol, cases


# =====================================================================================================================
def check_operator_table(seed, n_cases=0):
    """C01 ("operators on results are ordinary nodes"): exhaustive over Python's operator table.  The value of a node
    is a Probe that records (operator, left operand, right operand) of the call it finally receives; for every
    binary operator in forward, reflected (constant on the left) and node-node form, every comparison and every
    unary operator, the DAG's result is compared with the plain Python evaluation of the same expression."""
    import operator as op

    from tawazi import dag, xn

    class Probe:
        def __init__(self, name):
            self.name = name

        def __repr__(self):
            return f"P({self.name})"

        def __hash__(self):
            return hash(self.name)

    def norm(v):
        return v.name if isinstance(v, Probe) else v

    binary = ["add", "sub", "mul", "matmul", "truediv", "floordiv", "mod", "divmod", "pow", "lshift", "rshift", "and", "xor", "or"]
    for nm in binary:
        setattr(Probe, f"__{nm}__", (lambda nm: lambda self, o: (nm, self.name, norm(o)))(nm))
        setattr(Probe, f"__r{nm}__", (lambda nm: lambda self, o: (nm, norm(o), self.name))(nm))
    for nm in ["lt", "le", "gt", "ge", "eq", "ne"]:
        setattr(Probe, f"__{nm}__", (lambda nm: lambda self, o: (nm, self.name, norm(o)))(nm))
    for nm in ["neg", "pos", "abs", "invert"]:
        setattr(Probe, f"__{nm}__", (lambda nm: lambda self: (nm, self.name))(nm))

    @xn
    def mk(name):
        return Probe(name)

    fns = {"add": op.add, "sub": op.sub, "mul": op.mul, "matmul": op.matmul, "truediv": op.truediv, "floordiv": op.floordiv, "mod": op.mod, "divmod": divmod,
           "pow": op.pow, "lshift": op.lshift, "rshift": op.rshift, "and": op.and_, "xor": op.xor, "or": op.or_,
           "lt": op.lt, "le": op.le, "gt": op.gt, "ge": op.ge, "eq": op.eq, "ne": op.ne}
    una = {"neg": op.neg, "pos": op.pos, "abs": abs, "invert": op.invert}
    viol, cases = [], 0

    def run_case(label, build, plain):
        nonlocal cases
        cases += 1
        try:
            with warnings.catch_warnings():
                warnings.simplefilter("ignore")
                d = dag(build)
                got = d()
        except Exception as e:  # noqa: BLE001
            got = f"raised {type(e).__name__}: {e}"
        exp = plain()
        if got != exp:
            viol.append(dict(kind="history", check="operator_table", index=cases, violations=[f"[C01] {label}: the DAG returns {got!r}, plain Python evaluates to {exp!r}"]))

    for nm, f in fns.items():
        run_case(f"result {nm} constant", (lambda f=f: (lambda: f(mk("L"), 7)))(), lambda f=f: f(Probe("L"), 7))
        run_case(f"constant {nm} result (reflected operator)", (lambda f=f: (lambda: f(7, mk("R"))))(), lambda f=f: f(7, Probe("R")))
        run_case(f"result {nm} result", (lambda f=f: (lambda: f(mk("L"), mk("R"))))(), lambda f=f: f(Probe("L"), Probe("R")))
    for nm, f in una.items():
        run_case(f"{nm} result", (lambda f=f: (lambda: f(mk("X"))))(), lambda f=f: f(Probe("X")))
    # order-sensitive builtin operands (what a user writes): str / list / tuple / dict on the left
    @xn
    def val(v):
        return v

    for label, left, right, f in [("str + result", "hello, ", "bob", op.add), ("list + result", [1], [2, 3], op.add), ("tuple + result", (1,), (3, 3), op.add),
                                   ("dict | result", {"a": 1, "b": 1}, {"a": 2}, op.or_), ("int - result", 10, 3, op.sub), ("int ** result", 2, 5, op.pow)]:
        run_case(label, (lambda left=left, right=right, f=f: (lambda: f(left, val(right))))(), lambda left=left, right=right, f=f: f(left, right))
    return viol, cases


# =====================================================================================================================
def check_id_strings(seed, n_cases=120):
    """the string-level facts that every proof ASSUMES about generated ids (ids are an uninterpreted sort there):
    a fresh id per call site (count_occurrences / _lazy_xn_id), distinct argument holders (make_axn_id / make_suffix),
    injective prefixing of nested DAGs -- exercised with function names that CONTAIN the separator substrings
    (realistic qualified names: dots, '<locals>', '<lambda>', digits, names that are prefixes of each other, DAG names equal to
    function names), reuse of one function up to 6 times, keyword and positional constants, and nesting
    depth <= 3.  Oracle: the plain sequential evaluation; every call site executes exactly once."""
    from tawazi import dag, xn

    rnd = random.Random(seed)
    viol, cases = [], 0
    # (a) the id functions themselves, exhaustively on a finite domain: holders of distinct slots are distinct, use counts
    #     give fresh ids, also for base ids that are prefixes / look-alikes of each other
    from tawazi.node.helpers import _lazy_xn_id
    from tawazi.node.node import count_occurrences, make_axn_id

    cases += 1
    bases = ["f", "f1", "f11", "g.h", "outer.<locals>.f", "<lambda>", "p.f", "p.f1"]
    holders = {}
    for b in bases:
        for slot in list(range(0, 1200)) + ["a", "b", "x1", "args", "twz_active", "a1"]:
            i_ = make_axn_id(b, slot)
            if i_ in holders:
                viol.append(dict(kind="history", check="id_strings", index=0, violations=[f"[C03] make_axn_id collides: {holders[i_]} and {(b, slot)} both give {i_!r}"]))
            holders[i_] = (b, slot)
    table = {}
    for rounds in range(60):
        for b in bases:
            new = _lazy_xn_id(b, count_occurrences(b, table))
            if new in table or new in holders:
                viol.append(dict(kind="history", check="id_strings", index=0, violations=[f"[C03] use number {rounds} of {b!r} gets the id {new!r} which is already taken"]))
            table[new] = None
            for slot in (0, 1, "k"):
                table[make_axn_id(new, slot)] = None  # the argument holders of that call site live in the same table
    # (b) qualified names a Python function can really have (dots, <locals>, <lambda>, digits, prefixes of each other)
    nasty = ["f", "f1", "f11", "f_1", "g.h", "g.h.f", "outer.<locals>.f", "outer.<locals>.f1", "<lambda>", "C.method"]
    for idx in range(n_cases):
        cases += 1
        names = rnd.sample(nasty, rnd.randint(1, 3))
        counts = {}
        fns = {}
        for nm in names:
            def mkf(nm=nm):
                def body(a=0, k=0):
                    counts[nm] = counts.get(nm, 0) + 1
                    return (nm, a, k)

                body.__name__ = body.__qualname__ = nm
                return body

            fns[nm] = mkf()
        plan = [(rnd.choice(names), rnd.choice(["const", "prev", "none"]), rnd.random() < 0.4) for _ in range(rnd.randint(1, 6))]
        depth = rnd.randint(0, 2)

        def evaluate(call):
            prev = ("start",)
            outs = []
            for nm, how, with_kw in plan:
                a = 7 if how == "const" else (prev if how == "prev" else 0)
                kw = {"k": 3} if with_kw else {}
                prev = call(nm, a, kw) if how != "none" else call(nm, None, kw)
                outs.append(prev)
            return tuple(outs)

        def plain_call(nm, a, kw):
            return fns[nm](*(() if a is None else (a,)), **kw)

        exp = evaluate(plain_call)
        exp_counts = dict(counts)
        counts.clear()
        try:
            with warnings.catch_warnings():
                warnings.simplefilter("ignore")
                xns = {nm: xn(fns[nm]) for nm in names}

                def body():
                    return evaluate(lambda nm, a, kw: xns[nm](*(() if a is None else (a,)), **kw))

                body.__name__ = body.__qualname__ = rnd.choice(["pipe", "p.q", "f", "outer.<locals>.pipe"])
                d = dag(body)
                for lvl in range(depth):
                    def make_wrap(inner):
                        def wrap():
                            return inner()

                        return wrap

                    wrap = make_wrap(d)
                    wrap.__name__ = wrap.__qualname__ = rnd.choice(["outer", "o.p", body.__name__, "f"]) + rnd.choice(["", str(lvl)])
                    d = dag(wrap)
                got = d()
        except Exception as e:  # noqa: BLE001
            viol.append(dict(kind="history", check="id_strings", seed=seed, index=idx, violations=[f"[C03] names {names} plan {plan} depth {depth}: building / running raised {type(e).__name__}: {str(e)[:120]}"]))
            continue
        if tuple(got) != exp:
            viol.append(dict(kind="history", check="id_strings", seed=seed, index=idx, violations=[f"[C03] names {names} plan {plan} depth {depth}: DAG returned {got!r}, plain evaluation {exp!r}"]))
        elif counts != exp_counts:
            viol.append(dict(kind="history", check="id_strings", seed=seed, index=idx, violations=[f"[C03] names {names} plan {plan} depth {depth}: executions per function {counts}, expected {exp_counts} (one per call site)"]))
    return viol, cases


# =====================================================================================================================
def check_default_identity(seed, n_cases=0):
    """C01 on default values that are identity-sensitive or mutated in place (deterministic, both flavours): a DAG call
    must hand the node the very default OBJECT the plain function would see (Python evaluates a default once and shares
    it between calls), not a copy of it"""
    from tawazi import dag, xn

    viol, cases = [], 0
    MISSING = object()

    def run_pair(label, make_body, calls):
        nonlocal cases
        for is_async in (False, True):
            cases += 1
            plain_body, dag_body = make_body(), make_body()
            exp = [plain_body["plain"](*a) for a in calls]
            with warnings.catch_warnings():
                warnings.simplefilter("ignore")
                d = dag(dag_body["traced"], is_async=is_async, max_concurrency=2)
            try:
                got = [(asyncio.run(d(*a)) if is_async else d(*a)) for a in calls]
            except Exception as e:  # noqa: BLE001
                got = f"raised {type(e).__name__}: {e}"
            if got != exp:
                tag = "" if label.startswith("[") else "[C01] "
                viol.append(dict(kind="history", check="default_identity", index=cases, violations=[f"{tag}{label} ({'AsyncDAG' if is_async else 'DAG'}): calls {calls} return {got!r}, the plain function returns {exp!r}"]))

    def sentinel():
        def is_missing(v):
            return v is MISSING

        node = xn(is_missing)

        def plain(v=MISSING):
            return is_missing(v)

        def traced(v=MISSING):
            return node(v)

        return dict(plain=plain, traced=traced)

    def accumulating():
        def collect(v, acc):
            acc.append(v)
            return list(acc)

        node = xn(collect)
        shared_plain, shared_traced = [], []

        def plain(v, acc=shared_plain):
            return collect(v, acc)

        def traced(v, acc=shared_traced):
            return node(v, acc)

        return dict(plain=plain, traced=traced)

    def nested_sentinel():
        def is_missing(v):
            return v is MISSING

        node = xn(is_missing)

        def plain():
            return is_missing(MISSING), is_missing(MISSING)

        def inner(v=MISSING):
            return node(v)

        inner.__name__ = inner.__qualname__ = "inner_with_sentinel_default"
        with warnings.catch_warnings():
            warnings.simplefilter("ignore")
            inner_dag = dag(inner)

        def traced():
            # the default of the inner DAG's parameter and a sentinel passed explicitly as a constant
            return inner_dag(), node(MISSING)

        return dict(plain=plain, traced=traced)

    run_pair("[C20] sentinel default of a nested DAG / sentinel constant, tested with `is`", nested_sentinel, [()])
    run_pair("sentinel default tested with `is`", sentinel, [(), (3,)])
    run_pair("mutable default appended to in place over three calls", accumulating, [(10,), (20,), (30,)])
    return viol, cases
