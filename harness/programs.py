"""harness.programs -- bounded stand-in for the tracing side (C01 C03 C10 C11 C13 C17 C20): random describing
functions in the supported fragment are evaluated twice by ONE interpreter -- once with the plain callables
(sequential Python: the reference of C01), once through the real @xn / @dag machinery -- and compared (value and
per-call-site execution counts).  Bounded; never counted as proved."""
from __future__ import annotations

import asyncio
import os
import random
import sys
import warnings

REPO = os.environ.get("VERIF_REPO", "/repo")
if sys.path[0] != REPO:
    sys.path.insert(0, REPO)

import tawazi  # noqa: E402
from tawazi import Resource, and_, dag, not_, or_, xn  # noqa: E402
from tawazi.errors import TawaziBaseException  # noqa: E402

NOFLAG = object()
SAMPLES = []


# ---- the plain callables -------------------------------------------------------------------------------------------------
def mk(a):
    # ("p", 0) is ONE key (a tuple): r[("p", 0)] is not r["p"][0]
    return {"v": a, "t": True, "f": False, "p": (a, ("x", a)), ("p", 0): ("tuple-key", a)}


def pair(a, b):
    return ("pair", a, b)


def trip(a):
    return (("t0", a), ("t1", a), ("t2", a))


def one():
    return ("one",)


def kwop(a, k=("kdef",)):
    return ("kwop", a, k)


OPS = {"mk": (mk, 1), "pair": (pair, 2), "trip": (trip, 1), "one": (one, 0), "kwop": (kwop, 1)}
INDEXABLE = {"mk": [["v"], ["t"], ["f"], ["p"], ["p", 0], ["p", 1], [("p", 0)], [("p", 0), 1]], "trip": [[0], [1], [2], [1, 1]], "pair": [[0], [1], [2]], "kwop": [[1], [2]], "one": [[0]]}
FLAG_KEYS = {"mk": [(["t"], True), (["f"], False), (["v"], None)]}


class Stmt:
    def __init__(self, **kw):
        self.kind = "op"
        self.op = None
        self.args, self.kwargs = [], {}
        self.active = None
        self.unpack = None
        self.names = []
        self.inner = None
        self.cfg = {}
        self.reuse = None
        self.setup = self.debug = False
        self.__dict__.update(kw)


class Prog:
    def __init__(self, name):
        self.name = name
        self.params = []  # (name, has_default, default)
        self.stmts = []
        self.ret = ("none",)

    def n_required(self):
        return len([p for p in self.params if not p[1]])


def gen_prog(rnd, name, depth=0, n_stmts=None, allow_inner=True, allow_flags=True, setup_debug=False, is_inner=False):
    P = Prog(name)
    npar = rnd.randint(0, 2)
    for i in range(npar):
        hd = rnd.random() < 0.4 and (i == npar - 1 or all(p[1] for p in P.params[i:]))
        P.params.append((f"p{i}", hd, ("dflt", name, i)))
    # defaults must be trailing
    seen_default = False
    for i, p in enumerate(P.params):
        if p[1]:
            seen_default = True
        elif seen_default:
            P.params[i] = (p[0], True, p[2])
    vars_ = []  # (name, producing op, maybe_none)

    def ref(allow_index=True, only_safe=False):
        c = rnd.random()
        if vars_ and c < 0.65:
            nm, op, maybe_none = rnd.choice(vars_)
            key = []
            if isinstance(op, tuple):
                # the container returned by a nested DAG is a Python container of references: it can only be
                # indexed / unpacked in the describing function, not passed on as a whole (same as for plain nodes)
                return ("var", nm, [rnd.choice(op[1])])
            if allow_index and op in INDEXABLE and not maybe_none and rnd.random() < (0.75 if is_inner else 0.45):
                key = rnd.choice(INDEXABLE[op])
            return ("var", nm, key)
        if P.params and c < 0.85:
            return ("param", rnd.randrange(len(P.params)), [])
        return ("const", rnd.choice([0, 1, "s", ("c", 1), None, True]))

    def flagref():
        c = rnd.random()
        mkvars = [v for v in vars_ if v[1] == "mk" and not v[2]]
        if mkvars and c < 0.55:
            nm, _, _ = rnd.choice(mkvars)
            key, _ = rnd.choice(FLAG_KEYS["mk"][:2])
            return ("var", nm, key)
        if P.params and c < 0.7:
            return ("param", rnd.randrange(len(P.params)), [])
        flags = [v for v in vars_ if v[1] in ("eq", "and", "or", "not")]
        if flags and c < 0.85:
            return ("var", rnd.choice(flags)[0], [])
        return ("const", rnd.choice([True, False, 0, 1]))

    n = n_stmts if n_stmts is not None else rnd.randint(1, 5)
    inner_count = 0
    for i in range(n):
        c = rnd.random()
        nm = f"v{i}"
        if allow_inner and depth < 2 and c < 0.18 and inner_count < 2:
            inner_count += 1
            flagged = allow_flags and rnd.random() < 0.3
            # documented limits: a sub-DAG must return something (RuntimeError otherwise, pinned by the suite), and a
            # sub-DAG called with twz_active may not contain nodes that have their own twz_active ("supported in the future")
            ip = gen_prog(rnd, f"{name}_in{i}", depth + 1, rnd.randint(1, 3), allow_inner, allow_flags and not flagged, is_inner=True)
            k = rnd.randint(ip.n_required(), len(ip.params))
            st = Stmt(kind="inner", inner=ip, args=[ref(only_safe=True) for _ in range(k)], names=[nm])
            if flagged:
                st.active = flagref()
                _outputs_are_node_results(ip)
            shape = ip.ret[0]
            if shape == "tuple" and len(ip.ret[1]) > 0 and rnd.random() < 0.5 and st.active is None:
                st.unpack = len(ip.ret[1])
                st.names = [f"{nm}_{j}" for j in range(st.unpack)]
            P.stmts.append(st)
            if st.unpack:
                for x in st.names:
                    vars_.append((x, "inner", True))
            elif shape in ("tuple", "list"):
                if ip.ret[1]:
                    vars_.append((nm, ("container", list(range(len(ip.ret[1])))), True))
            elif shape == "dict":
                vars_.append((nm, ("container", list(ip.ret[1])), True))
            else:
                vars_.append((nm, "inner", True))
            continue
        if c < 0.3 and len(vars_) + len(P.params) >= 1:
            kind = rnd.choice(["eq", "and", "or", "not"])
            st = Stmt(kind=kind, args=[ref(False), ref(False)] if kind != "not" else [ref(False)], names=[nm])
            P.stmts.append(st)
            vars_.append((nm, kind, False))
            continue
        op = rnd.choice(list(OPS) + (["kwop", "mk", "mk"] if is_inner else []))
        fn, ar = OPS[op]
        st = Stmt(op=op, args=[ref() for _ in range(ar)], names=[nm])
        if op == "kwop" and rnd.random() < (0.9 if is_inner else 0.6):
            st.kwargs = {"k": ref()}
        st.cfg = dict(priority=rnd.choice([0, 0, 1, 5, -2]), is_sequential=rnd.random() < 0.2, resource=rnd.choice([Resource.thread, Resource.thread, Resource.main_thread, Resource.async_thread]))
        if op == "trip" and rnd.random() < 0.6:
            st.unpack = 3
            st.names = [f"{nm}_{j}" for j in range(3)]
        elif allow_flags and rnd.random() < 0.3:
            st.active = flagref()
        same = [s for s in P.stmts if s.kind == "op" and s.op == op and s.unpack == st.unpack]
        if same and rnd.random() < 0.35:
            st.reuse = P.stmts.index(rnd.choice(same))
            while P.stmts[st.reuse].reuse is not None:
                st.reuse = P.stmts[st.reuse].reuse
            st.cfg = P.stmts[st.reuse].cfg
        P.stmts.append(st)
        maybe_none = st.active is not None
        if st.unpack:
            for j, x in enumerate(st.names):
                vars_.append((x, "pair", False))  # elements of trip are 2-tuples
        else:
            vars_.append((nm, op, maybe_none))
    shape = rnd.choice(["single", "tuple", "list", "dict", "none", "tuple"])
    if not vars_:
        shape = rnd.choice(["none", "tuple"])
    if is_inner and shape == "none":
        shape = "tuple"
    pick = lambda: ref() if rnd.random() < 0.85 else ("const", ("retc",))  # noqa: E731
    if shape == "single":
        P.ret = ("single", pick())
        if is_inner and P.ret[1][0] == "const":
            P.ret = ("tuple", [P.ret[1]])
    elif shape in ("tuple", "list"):
        P.ret = (shape, [pick() for _ in range(rnd.randint(1, 3))])
    elif shape == "dict":
        P.ret = ("dict", {f"k{j}": pick() for j in range(rnd.randint(1, 3))})
    else:
        P.ret = ("none",)
    return P


def _outputs_are_node_results(ip):
    """a deactivated sub-DAG passes constants / parameters of its return value through instead of None (known finding
    KF-C10-passthrough): flagged sub-DAGs are generated with node results as outputs only"""
    produced = [st.names[0] for st in ip.stmts if st.kind == "op" and not st.unpack]
    if not produced:
        ip.stmts.append(Stmt(op="one", args=[], names=[f"v{len(ip.stmts)}"], cfg=dict(priority=0, is_sequential=False, resource=Resource.thread)))
        produced = [ip.stmts[-1].names[0]]
    # only results of the flagged sub-DAG's OWN nodes: a reference to the result of a further nested DAG may again be
    # one of that DAG's constants / parameters (the same known finding, one level down)
    own = {nm for st in ip.stmts if st.kind == "op" for nm in st.names}
    fix = lambda r: r if (r[0] == "var" and r[1] in own) else ("var", produced[0], [])  # noqa: E731
    sh = ip.ret
    if sh[0] == "single":
        ip.ret = ("single", fix(sh[1]))
    elif sh[0] in ("tuple", "list"):
        ip.ret = (sh[0], [fix(r) for r in sh[1]])
    elif sh[0] == "dict":
        ip.ret = ("dict", {k: fix(r) for k, r in sh[1].items()})


# ---- ONE interpreter, two back ends --------------------------------------------------------------------------------------
def interp(P, F, params):
    env = {}

    def res(r):
        kind = r[0]
        if kind == "const":
            return r[1]
        v = env[r[1]] if kind == "var" else params[r[1]]
        for k in r[2]:
            v = v[k]
        return v

    for i, st in enumerate(P.stmts):
        args = [res(a) for a in st.args]
        kw = {k: res(a) for k, a in st.kwargs.items()}
        flag = res(st.active) if st.active is not None else NOFLAG
        if st.kind == "op":
            out = F.call(P, i, st, args, kw, flag)
        elif st.kind == "inner":
            out = F.call_inner(P, i, st, args, flag)
        elif st.kind == "eq":
            out = F.eq(args[0], args[1])
        elif st.kind == "and":
            out = F.and_(args[0], args[1])
        elif st.kind == "or":
            out = F.or_(args[0], args[1])
        else:
            out = F.not_(args[0])
        if st.unpack:
            vals = tuple(out)
            for nm, v in zip(st.names, vals):
                env[nm] = v
        else:
            env[st.names[0]] = out
    sh = P.ret
    if sh[0] == "none":
        return None
    if sh[0] == "single":
        return res(sh[1])
    if sh[0] == "tuple":
        return tuple(res(r) for r in sh[1])
    if sh[0] == "list":
        return [res(r) for r in sh[1]]
    return {k: res(r) for k, r in sh[1].items()}


def none_shape(P):
    sh = P.ret
    if sh[0] in ("none", "single"):
        return None
    if sh[0] == "tuple":
        return tuple(None for _ in sh[1])
    if sh[0] == "list":
        return [None for _ in sh[1]]
    return {k: None for k in sh[1]}


class RefBackend:
    """plain callables, evaluated sequentially; a deactivated call yields None"""

    def __init__(self, counts):
        self.counts = counts

    def call(self, P, i, st, args, kw, flag):
        if flag is not NOFLAG and not flag:
            return None
        key = (P.name, st.reuse if st.reuse is not None else i)
        self.counts[key] = self.counts.get(key, 0) + 1
        return OPS[st.op][0](*args, **kw)

    def call_inner(self, P, i, st, args, flag):
        ip = st.inner
        if flag is not NOFLAG and not flag:
            return none_shape(ip)
        full = list(args) + [p[2] for p in ip.params[len(args):]]
        return interp(ip, self, full)

    def eq(self, a, b):
        return a == b

    def and_(self, a, b):
        return a and b

    def or_(self, a, b):
        return a or b

    def not_(self, a):
        return not a


class TwzBackend:
    def __init__(self, counts, inner_dags, xns):
        self.counts, self.inner_dags, self.xns = counts, inner_dags, xns

    def call(self, P, i, st, args, kw, flag):
        f = self.xns[(P.name, st.reuse if st.reuse is not None else i)]
        if flag is not NOFLAG:
            kw = dict(kw, twz_active=flag)
        return f(*args, **kw)

    def call_inner(self, P, i, st, args, flag):
        d = self.inner_dags[(P.name, i)]
        if flag is not NOFLAG:
            return d(*args, twz_active=flag)
        return d(*args)

    def eq(self, a, b):
        return a == b

    def and_(self, a, b):
        return and_(a, b)

    def or_(self, a, b):
        return or_(a, b)

    def not_(self, a):
        return not_(a)


def build(P, counts, is_async=False, max_concurrency=2, top=True):
    """-> the real DAG / AsyncDAG of program P"""
    xns, inner = {}, {}
    for i, st in enumerate(P.stmts):
        if st.kind == "op" and st.reuse is None:
            fn0 = OPS[st.op][0]

            def make(fn0=fn0, key=(P.name, i)):
                def f(*a, **k):
                    counts[key] = counts.get(key, 0) + 1
                    return fn0(*a, **k)

                f.__name__ = f.__qualname__ = f"{P.name}_s{key[1]}_{fn0.__name__}"
                return f

            kw = dict(st.cfg)
            if st.unpack:
                kw["unpack_to"] = st.unpack
            if st.setup:
                kw["setup"] = True
            if st.debug:
                kw["debug"] = True
            xns[(P.name, i)] = xn(make(), **kw)
        elif st.kind == "inner":
            inner[(P.name, i)] = build(st.inner, counts, False, 2, top=False)
    back = TwzBackend(counts, inner, xns)
    names = [p[0] for p in P.params]
    sig = ", ".join(n if not hd else f"{n}=__defaults[{j}]" for j, (n, hd, _) in enumerate(P.params))
    src = f"def {P.name}({sig}):\n    return __interp(__P, __F, [{', '.join(names)}])\n"
    ns = {"__interp": interp, "__P": P, "__F": back, "__defaults": [p[2] for p in P.params]}
    exec(src, ns)
    with warnings.catch_warnings():
        warnings.simplefilter("ignore")
        return dag(ns[P.name], max_concurrency=max_concurrency, is_async=is_async and top)


def run_ref(P, inputs):
    counts = {}
    full = list(inputs) + [p[2] for p in P.params[len(inputs):]]
    try:
        return ("return", interp(P, RefBackend(counts), full)), counts
    except Exception as e:  # noqa: BLE001
        return ("raise", type(e).__name__), counts


def run_dag(d, inputs, counts, is_async):
    counts.clear()
    try:
        r = asyncio.run(d(*inputs)) if is_async else d(*inputs)
        return ("return", r)
    except BaseException as e:  # noqa: BLE001
        c = e.__cause__ if isinstance(e, TawaziBaseException) and e.__cause__ is not None else e
        if isinstance(c, AttributeError) and "'NoneType' object has no attribute '__getitem__'" in str(c):
            return ("raise", "[KF-C10-index] AttributeError: indexing the None result of a deactivated node")
        return ("raise", type(c).__name__)


def flatten_counts(c):
    return {k: v for k, v in c.items() if v}


def check_equivalence(seed, n_cases, nested=True, flags=True):
    """C01 / C03 / C10 / C17 / C20: value and per-call-site execution counts, sync and async, several configurations"""
    rnd = random.Random(seed)
    viol, cases = [], 0
    for idx in range(n_cases):
        P = gen_prog(rnd, f"prog{idx}", allow_inner=nested, allow_flags=flags)
        if len(SAMPLES) < 2 and len(P.stmts) >= 3:
            SAMPLES.append(describe(P))
        k = rnd.randint(P.n_required(), len(P.params))
        inputs = tuple(rnd.choice([("in", j), True, False, 0, {"t": True, "f": False}]) for j in range(k))
        cases += 1
        v = one_equivalence(P, inputs, rnd)
        if v:
            viol.append(dict(kind="program", check="equivalence", seed=seed, index=idx, nested=nested, flags=flags, program=describe(P), inputs=repr(inputs), violations=v))
    return viol, cases


def one_equivalence(P, inputs, rnd):
    v = []
    exp, exp_counts = run_ref(P, inputs)
    if exp[0] == "raise":
        return v  # programs whose plain evaluation raises (e.g. indexing a None) are outside the compared fragment
    results = {}
    for is_async in (False, True):
        counts = {}
        try:
            d = build(P, counts, is_async=is_async, max_concurrency=rnd.choice([1, 2, 4]))
        except KeyError as e:
            return [f"building the DAG raised KeyError {e}"]
        except BaseException as e:  # noqa: BLE001
            return [f"building the DAG raised {type(e).__name__}: {e}"]
        got = run_dag(d, inputs, counts, is_async)
        flavour = "AsyncDAG" if is_async else "DAG"
        if got[0] == "raise" and "[KF-C10-index]" in got[1]:
            return [f"[KF-C10-index] {flavour}{inputs!r} raised AttributeError; plain evaluation -> {exp!r}"]
        if got != exp:
            v.append(f"{flavour}{inputs!r} -> {got!r}; plain sequential evaluation -> {exp!r}")
        elif flatten_counts(counts) != flatten_counts(exp_counts):
            v.append(f"{flavour}: executions per call site {flatten_counts(counts)} != plain evaluation {flatten_counts(exp_counts)}")
        results[is_async] = (got, flatten_counts(counts))
        if not is_async and not v:
            # configuration may change the schedule, never the value
            conf = {"max_concurrency": rnd.choice([1, 3])}
            d.config_from_dict(conf)
            got2 = run_dag(d, inputs, counts, False)
            if got2 != exp:
                v.append(f"after config_from_dict({conf}): {got2!r} != {exp!r}")
            # a second call with the same arguments (no state carried over)
            got3 = run_dag(d, inputs, counts, False)
            if got3 != exp:
                v.append(f"second call: {got3!r} != {exp!r}")
    if not v and results[False] != results[True]:
        v.append(f"[C17] DAG -> {results[False]!r}, AsyncDAG -> {results[True]!r}")
    return v


def describe(P, ind=""):
    out = [f"{ind}def {P.name}({', '.join(p[0] + ('=' + repr(p[2]) if p[1] else '') for p in P.params)}):"]
    for i, st in enumerate(P.stmts):
        a = ", ".join(map(repr, st.args))
        extra = (f", twz_active={st.active!r}" if st.active is not None else "") + (f", **{st.kwargs!r}" if st.kwargs else "")
        if st.kind == "inner":
            out.append(f"{ind}  {','.join(st.names)} = {st.inner.name}({a}{extra})")
            out += describe(st.inner, ind + "      ")
        else:
            out.append(f"{ind}  {','.join(st.names)} = {st.op or st.kind}({a}{extra}) cfg={ {k: str(v) for k, v in st.cfg.items()} } reuse={st.reuse}")
    out.append(f"{ind}  return {P.ret!r}")
    return out


# ---- build-time validation (C11 / C13) ----------------------------------------------------------------------------------------
def check_build_validation(seed, n_cases):
    """a setup node depending on a non-setup node / DAG argument, and a non-debug node depending on a debug node
    (through ANY kind of reference: positional, keyword, activation) must be rejected when the DAG is built"""
    rnd = random.Random(seed)
    viol, cases = [], 0
    for idx in range(n_cases):
        kind = rnd.choice(["setup_on_plain", "setup_on_arg", "plain_on_debug", "legal_setup", "legal_debug"])
        via = rnd.choice(["arg_first", "arg_after_constant", "kwarg", "active"])
        cases += 1
        v = one_build_validation(kind, via)
        if v:
            viol.append(dict(kind="program", check="build_validation", seed=seed, index=idx, case=kind, via=via, violations=v))
    return viol, cases


def one_build_validation(kind, via):
    def f2(a=None, b=None, k=None):
        return ("f2", a, b, k)

    def src():
        return {"t": True}

    s_plain, s_setup, s_debug = xn(src), xn(src, setup=True), xn(src, debug=True)
    bad = {"setup_on_plain": (xn(f2, setup=True), s_plain), "plain_on_debug": (xn(f2), s_debug), "legal_setup": (xn(f2, setup=True), s_setup), "legal_debug": (xn(f2, debug=True), s_debug), "setup_on_arg": (xn(f2, setup=True), None)}
    consumer, producer = bad[kind]

    def pipe(p0=("d",)):
        x = producer() if producer is not None else p0
        if via == "arg_first":
            return consumer(x)
        if via == "arg_after_constant":
            return consumer(1, x)
        if via == "kwarg":
            return consumer(1, k=x)
        return consumer(1, twz_active=x["t"] if producer is not None else x)

    try:
        with warnings.catch_warnings():
            warnings.simplefilter("ignore")
            dag(pipe)
        built = True
    except BaseException as e:  # noqa: BLE001
        built = False
        err = e
    legal = kind.startswith("legal")
    if legal and not built:
        return [f"legal DAG ({kind} via {via}) rejected: {err!r}"]
    if not legal and built:
        return [f"illegal dependency accepted at build time: {kind} via {via}"]
    return []


# ---- systematic matrix of reference forms x contexts ---------------------------------------------------------------------------
def _thread_cfg():
    return dict(priority=0, is_sequential=False, resource=Resource.thread)


def matrix_program(kind, src, depth, tag):
    """innermost program: v0 = mk(p0); t0,t1,t2 = trip(p0); consumer uses `src` through `kind`"""
    P = Prog(f"m{tag}_d0")
    P.params = [("p0", False, None)]
    P.stmts.append(Stmt(op="mk", args=[("param", 0, [])], names=["v0"], cfg=_thread_cfg()))
    P.stmts.append(Stmt(op="trip", args=[("param", 0, [])], names=["t_0", "t_1", "t_2"], unpack=3, cfg=_thread_cfg()))
    if kind == "positional":
        P.stmts.append(Stmt(op="pair", args=[src, ("const", 0)], names=["c"], cfg=_thread_cfg()))
    elif kind == "keyword":
        P.stmts.append(Stmt(op="kwop", args=[("const", 0)], kwargs={"k": src}, names=["c"], cfg=_thread_cfg()))
    else:
        P.stmts.append(Stmt(op="one", args=[], active=src, names=["c"], cfg=_thread_cfg()))
    P.stmts.append(Stmt(op="pair", args=[("var", "c", []), ("const", "dependent")], names=["d"], cfg=_thread_cfg()))
    P.ret = ("tuple", [("var", "c", []), ("var", "d", [])])
    for lvl in range(1, depth + 1):
        O = Prog(f"m{tag}_d{lvl}")
        O.params = [("p0", False, None)]
        O.stmts.append(Stmt(kind="inner", inner=P, args=[("param", 0, [])], names=["r"]))
        O.ret = ("tuple", [("var", "r", [0]), ("var", "r", [1])])
        P = O
    return P


def check_reference_matrix(seed, n_cases=0):
    srcs = {
        "param": ("param", 0, []), "result": ("var", "v0", []), "indexed": ("var", "v0", ["p", 1]), "indexed_true": ("var", "v0", ["t"]),
        "indexed_false": ("var", "v0", ["f"]), "unpacked": ("var", "t_1", []), "unpacked_indexed": ("var", "t_1", [1]), "nested_key": ("var", "v0", ["p", 1, 1]),
    }
    viol, cases = [], 0
    rnd = random.Random(seed)
    for kind in ("positional", "keyword", "activation"):
        for sname, src in srcs.items():
            for depth in (0, 1, 2):
                for inp in (("in", 1), 0, {"t": False}):
                    cases += 1
                    P = matrix_program(kind, src, depth, f"{kind[:3]}_{sname}_{cases}")
                    v = one_equivalence(P, (inp,), rnd)
                    v = [m for m in v if "[KF-" not in m]
                    if v:
                        viol.append(dict(kind="program", check="reference_matrix", seed=seed, index=cases, reference=kind, source=sname, depth=depth, input=repr(inp), program=describe(P), violations=v))
    # setup nodes with a constant activation flag, inside nested DAGs (a setup node may only depend on constants)
    for flagv in (True, False):
        for depth in (0, 1, 2):
            cases += 1
            P = Prog(f"msetup_{int(flagv)}_d0_{cases}")
            P.params = [("p0", False, None)]
            P.stmts.append(Stmt(op="one", args=[], active=("const", flagv), names=["s"], cfg=_thread_cfg(), setup=True))
            P.stmts.append(Stmt(op="pair", args=[("var", "s", []), ("param", 0, [])], names=["c"], cfg=_thread_cfg()))
            P.ret = ("tuple", [("var", "s", []), ("var", "c", [])])
            for lvl in range(1, depth + 1):
                O = Prog(f"msetup_{int(flagv)}_d{lvl}_{cases}")
                O.params = [("p0", False, None)]
                O.stmts.append(Stmt(kind="inner", inner=P, args=[("param", 0, [])], names=["r"]))
                O.ret = ("tuple", [("var", "r", [0]), ("var", "r", [1])])
                P = O
            try:
                v = one_equivalence(P, (("in", 1),), rnd)
            except Exception as e:  # noqa: BLE001
                v = [f"[C20] building / running a DAG that nests a setup node with twz_active={flagv} raised {type(e).__name__}: {e}"]
            v = [m for m in v if "[KF-" not in m]
            if v:
                viol.append(dict(kind="program", check="reference_matrix", seed=seed, index=cases, reference="activation", source=f"setup node, constant {flagv}", depth=depth, input="('in', 1)", program=describe(P), violations=v))
    return viol, cases
