#!/usr/bin/env python
"""Apply one textual mutation (or a patch file) to a scratch copy of /repo and run verification units on it.
usage: mutrun.py <units-group> (--patch FILE | FILE OLD NEW)"""
import os, shutil, subprocess, sys, tempfile, json
HERE = os.path.dirname(os.path.dirname(os.path.abspath(__file__)))
def main():
    group = sys.argv[1]
    d = tempfile.mkdtemp(prefix="mut_")
    try:
        shutil.copytree("/repo/tawazi", os.path.join(d, "tawazi"))
        if sys.argv[2] == "--patch":
            r = subprocess.run(["patch", "-p1", "-d", d, "-i", os.path.abspath(sys.argv[3])], capture_output=True, text=True)
            if r.returncode: print(r.stdout, r.stderr); sys.exit(3)
        else:
            f, old, new = sys.argv[2:5]
            p = os.path.join(d, f); s = open(p).read()
            assert s.count(old) >= 1, f"pattern not found in {f}"
            open(p, "w").write(s.replace(old, new, 1))
        env = dict(os.environ, VERIF_REPO=d, VERIF_NO_CACHE="1")
        r = subprocess.run([os.path.join(HERE, ".venv/bin/python"), os.path.join(HERE, "tools/rungroup.py"), group], env=env)
        sys.exit(r.returncode)
    finally:
        shutil.rmtree(d, ignore_errors=True)
main()
