#!/bin/sh
# developer tool: run every registered quick check, one line per property  (tools/runall.sh [ids...])
cd "$(dirname "$0")/.."
ids="$*"; [ -z "$ids" ] && ids="C01 C02 C03 C04 C05 C06 C07 C08 C09 C10 C11 C12 C13 C14 C15 C16 C17 C18 C19 C20"
for p in $ids; do ./check $p --tier quick 2>&1 | grep -v "^WARNING" | grep "VIOLATION\|KNOWN-FINDING\|^$p\|UNDECIDED\|CHECKER\|Traceback" ; echo "  exit=$? ($p)"; done
