#!/usr/bin/env python
"""Regenerates MANIFEST.json from checklib/props.py (developer tool; the manifest is committed)."""
import json, os, sys
HERE = os.path.dirname(os.path.dirname(os.path.abspath(__file__)))
sys.path.insert(0, HERE)
from checklib import props
from checklib.manifest_text import LEVEL, NOT_APPLICABLE
all_ids = [json.loads(l)["id"] for l in open(os.path.join(HERE, "properties.jsonl"))]
checks = []
for pid in all_ids:
    if pid not in props.PROPS:
        continue
    L = LEVEL[pid]
    checks.append(dict(
        property_id=pid, quick_cmd=f"./check {pid} --tier quick", thorough_cmd=f"./check {pid} --tier thorough",
        evidence_file=f"evidence/{pid}.json", replay_cmd_template="./check --replay {path}", engine="pyvc",
        level_claimed=dict(category=L["category"], text=L["text"], design_ref=L.get("design_ref", "DESIGN.md section 5")),
        level_note=L["note"], technique=L["technique"],
    ))
m = dict(
    version=1, setup_cmd="./setup.sh",
    hooks=dict(guard="TAWAZI_VERIF", enable="no source hooks are needed: contracts are sidecar files (contracts/*.py) bound by qualified name to the functions extracted from /repo on every run; the replay harness replaces tawazi._dag.helpers.wait / ThreadPoolExecutor / asyncio inside its own process",
               baseline_off_cmd="cd /repo && /venv/bin/python -m pytest -ra -q -p no:cacheprovider --timeout=900 --continue-on-collection-errors", source_commits=[], add_only=True),
    engines=[dict(name="pyvc", path="pyvc/", serves_properties=[c["property_id"] for c in checks],
                  kind_free_text="contract-based deductive verification: the real function bodies are extracted from /repo, mechanically rewritten (loop cuts), executed on z3-backed proxies; clause-level obligations are discharged by z3 / cvc5, refuted ones by finite-scope models and replayed on the real scheduler (harness/)")],
    checks=checks,
    not_applicable=[dict(property_id=p, reason=NOT_APPLICABLE.get(p, "check under construction in this session")) for p in all_ids if p not in props.PROPS],
    notes="Every check re-reads /repo's working tree. Known findings: known_findings.json. See DESIGN.md.",
)
import jsonschema
jsonschema.validate(m, json.load(open("/root/.vp/MANIFEST.schema.json")))
json.dump(m, open(os.path.join(HERE, "MANIFEST.json"), "w"), indent=1)
print("MANIFEST.json:", len(checks), "checks,", len(m["not_applicable"]), "not applicable")
