#!/usr/bin/env python
"""Run a named group of verification units and print a summary (developer tool)."""
import os, sys, time
from collections import Counter
sys.path.insert(0, os.path.dirname(os.path.dirname(os.path.abspath(__file__))))
from pyvc.runner import verify_units
from contracts.registry import GROUPS, BUDGETS
import json as _json
KNOWN = [".cover."] + [p for f in _json.load(open(os.path.join(os.path.dirname(os.path.dirname(os.path.abspath(__file__))), "known_findings.json")))["findings"] if f["status"] == "open" for p in f.get("obligation_patterns", [])]
def main():
    import json
    units = []
    for g in sys.argv[1].split(","):
        units += GROUPS[g]
    t = time.time(); rep = verify_units(units, BUDGETS)
    if "--json" in sys.argv:
        bad = {}
        for u, r in rep.items():
            for x in r["results"]:
                if x["verdict"] != "discharged":
                    bad.setdefault(x["name"], dict(name=x["name"], verdict=x["verdict"], serves=x["serves"], known=any(k in x["name"] for k in KNOWN)))
        print(json.dumps(dict(bad=list(bad.values()), errors=[f"{u[1]}: {r['error']}" for u, r in rep.items() if r["error"]])))
        return
    bad = 0
    for u, r in rep.items():
        c = Counter(x["verdict"] for x in r["results"])
        print(f"{u[1]}{u[2]}: error={r['error']} paths={len(r['paths'])} obligations={len(r['results'])} {dict(c)}")
        seen = {}
        for x in r["results"]:
            if x["verdict"] != "discharged":
                seen.setdefault(x["name"], [x, 0]); seen[x["name"]][1] += 1
        os.makedirs("/tmp/undischarged", exist_ok=True)
        for n, (x, k) in seen.items():
            if "smt2" in x: open(f"/tmp/undischarged/{n}.smt2", "w").write(x["smt2"])
            if "model" in x: open(f"/tmp/undischarged/{n}.model", "w").write(x["model"])
            bad += 1
            print(f"    {x['verdict']:9s} x{k} {n}  serves={x['serves']} [{x['backend']}] path={x['path']}")
    print("wall", round(time.time() - t, 1), "s; non-discharged obligation names:", bad)
main()
