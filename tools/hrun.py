#!/usr/bin/env python
"""Run the history-level / program-level bounded checks (developer tool): hrun.py [--patch FILE] name..."""
import os, shutil, subprocess, sys, tempfile, time
HERE = os.path.dirname(os.path.dirname(os.path.abspath(__file__)))
if "--patch" in sys.argv:
    i = sys.argv.index("--patch"); patch = os.path.abspath(sys.argv[i + 1]); rest = sys.argv[1:i] + sys.argv[i + 2:]
    d = tempfile.mkdtemp(prefix="mut_")
    try:
        shutil.copytree("/repo/tawazi", os.path.join(d, "tawazi"))
        r = subprocess.run(["patch", "-p1", "-d", d, "-i", patch], capture_output=True, text=True); assert r.returncode == 0, r.stdout
        sys.exit(subprocess.run([sys.executable, __file__] + rest, env=dict(os.environ, VERIF_REPO=d)).returncode)
    finally:
        shutil.rmtree(d, ignore_errors=True)
sys.path.insert(0, HERE)
import warnings; warnings.simplefilter("ignore")
from checklib.bounded import BOUNDED
names = sys.argv[1:] or list(BOUNDED)
seed = int(os.environ.get("VERIF_SEED", "0"))
for n in names:
    t = time.time()
    r = BOUNDED[n](seed, thorough=False)
    print(f"{n:22s} cases={r['cases']:5d} violations={len(r['violations']):3d} known={r.get('known', {})} {round(time.time()-t,1)}s")
    for v in r["violations"][:2]:
        print("     ", str(v.get("violations"))[:300])
