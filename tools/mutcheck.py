#!/usr/bin/env python
"""Apply one textual mutation (or --patch FILE) to a scratch copy of /repo and run ./check <pid> for each given property.
usage: mutcheck.py C02,C09 (--patch FILE | FILE OLD NEW)"""
import os, shutil, subprocess, sys, tempfile, time
HERE = os.path.dirname(os.path.dirname(os.path.abspath(__file__)))
pids = sys.argv[1].split(",")
d = tempfile.mkdtemp(prefix="mut_")
try:
    shutil.copytree("/repo/tawazi", os.path.join(d, "tawazi"))
    if sys.argv[2] == "--patch":
        r = subprocess.run(["patch", "-p1", "-d", d, "-i", os.path.abspath(sys.argv[3])], capture_output=True, text=True)
        if r.returncode: print(r.stdout, r.stderr); sys.exit(3)
    else:
        f, old, new = sys.argv[2:5]
        p = os.path.join(d, f); s = open(p).read()
        assert s.count(old) >= 1, f"pattern not found in {f}"
        open(p, "w").write(s.replace(old, new, 1))
    for pid in pids:
        t = time.time()
        r = subprocess.run([os.path.join(HERE, "check"), pid, "--no-evidence"], cwd=HERE, env=dict(os.environ, VERIF_REPO=d), capture_output=True, text=True)
        out = [l for l in r.stdout.splitlines() if l.startswith(("VIOLATION", "KNOWN", pid, "  UNDECIDED", "CHECKER"))]
        print(f"--- {pid} exit={r.returncode} {round(time.time()-t)}s")
        for l in out: print("   ", l[:260])
        if r.returncode not in (0, 1): print(r.stdout[-1500:], r.stderr[-1500:])
finally:
    shutil.rmtree(d, ignore_errors=True)
