#!/usr/bin/env python
"""developer tool: verify every unit N times; list obligations whose verdict flips or whose solver time comes close to the budget
usage: tools/stability.py [N=3] [group,group,...]"""
import os, sys, time
sys.path.insert(0, os.path.dirname(os.path.dirname(os.path.abspath(__file__))))
from pyvc.runner import verify_units
from contracts.registry import GROUPS, BUDGETS
N = int(sys.argv[1]) if len(sys.argv) > 1 else 3
groups = sys.argv[2].split(",") if len(sys.argv) > 2 else list(GROUPS)
units = []
for g in groups:
    for u in GROUPS[g]:
        if u not in units: units.append(u)
seen = {}
for rnd in range(N):
    t = time.time(); rep = verify_units(units, BUDGETS)
    for u, r in rep.items():
        if r["error"]: print("round", rnd, "ERROR", u[1], u[2], r["error"][:200])
        for x in r["results"]:
            if x["kind"] == "cover": continue
            k = (u[1], u[2], x["name"], x["path"])
            e = seen.setdefault(k, dict(verdicts=set(), max_s=0.0))
            e["verdicts"].add(x["verdict"]); e["max_s"] = max(e["max_s"], x["seconds"])
    print(f"round {rnd}: {round(time.time()-t)} s", flush=True)
flaky = [(k, e) for k, e in seen.items() if len(e["verdicts"]) > 1 or (e["max_s"] > 2.5 and "discharged" in e["verdicts"])]
for k, e in sorted(flaky, key=lambda z: -z[1]["max_s"]):
    print(f"{e['max_s']:6.2f}s {sorted(e['verdicts'])} {k[0]}{list(k[1])} {k[2]} [{k[3]}]")
print("obligation instances:", len(seen), "; flaky or slow:", len(flaky))
