#!/usr/bin/env python
"""developer tool: run single units  `tools/rununit.py graphbuild:FromExecNodes [graphbuild:AddExecNode ...] [-v]`"""
import os, sys
from collections import Counter
sys.path.insert(0, os.path.dirname(os.path.dirname(os.path.abspath(__file__))))
from pyvc.runner import verify_units
from contracts.registry import BUDGETS
units = []
for a in sys.argv[1:]:
    if a.startswith("-"):
        continue
    parts = a.split(":")
    units.append((f"contracts.{parts[0]}", parts[1], tuple(parts[2:])))
rep = verify_units(units, BUDGETS)
os.makedirs("/tmp/undischarged", exist_ok=True)
for u, r in rep.items():
    c = Counter(x["verdict"] for x in r["results"] if x["kind"] != "cover")
    print(f"{u[1]}{u[2]}: error={r['error']} paths={len(r['paths'])} {dict(c)}")
    if "-v" in sys.argv:
        for p in r["paths"]:
            print("   path", p)
    seen = {}
    for x in r["results"]:
        if "-v" in sys.argv and x["kind"] != "cover":
            print("     ", x["verdict"], x["name"], x["path"], x["backend"], x["seconds"])
        if x["verdict"] != "discharged" and x["kind"] != "cover":
            seen.setdefault(x["name"], [x, 0]); seen[x["name"]][1] += 1
    for n, (x, k) in seen.items():
        if "smt2" in x: open(f"/tmp/undischarged/{n}.smt2", "w").write(x["smt2"])
        if "model" in x: open(f"/tmp/undischarged/{n}.model", "w").write(x["model"])
        print(f"    {x['verdict']:9s} x{k} {n}  serves={x['serves']} [{x['backend']}] path={x['path']}")
