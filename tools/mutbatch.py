#!/usr/bin/env python
"""Run catalogue mutants (and seeded patches) through their verification groups; report which properties fail."""
import json, os, shutil, subprocess, sys, tempfile, time
HERE = os.path.dirname(os.path.dirname(os.path.abspath(__file__)))
sys.path.insert(0, HERE)
from selftest.catalogue import MUTANTS
sel = sys.argv[1:] 
out = {}
for m in MUTANTS:
    if sel and not any(s in m["id"] for s in sel): continue
    d = tempfile.mkdtemp(prefix="mut_")
    try:
        shutil.copytree("/repo/tawazi", os.path.join(d, "tawazi"))
        if "patch" in m:
            r = subprocess.run(["patch", "-p1", "-d", d, "-i", m["patch"]], capture_output=True, text=True)
            assert r.returncode == 0, r.stdout + r.stderr
        else:
            p = os.path.join(d, m["file"]); s = open(p).read()
            assert s.count(m["old"]) >= 1, f"{m['id']}: pattern not found"
            open(p, "w").write(s.replace(m["old"], m["new"], 1))
        t = time.time()
        r = subprocess.run([os.path.join(HERE, ".venv/bin/python"), os.path.join(HERE, "tools/rungroup.py"), m["groups"], "--json"], env=dict(os.environ, VERIF_REPO=d, VERIF_NO_CACHE="1"), capture_output=True, text=True)
        try:
            rep = json.loads(r.stdout.strip().split("\n")[-1])
        except Exception:
            print(m["id"], "CRASH", r.stdout[-2000:], r.stderr[-2000:]); continue
        props = set(); names = []
        for x in rep["bad"]:
            if x["known"]: continue
            props |= set(x["serves"]); names.append(f"{x['verdict']}:{x['name']}")
        ok = m["expect"] <= props
        extra = props - m["expect"]
        print(f"{m['id']:40s} {'CAUGHT' if ok else 'MISSED'} reported={sorted(props)} expected={sorted(m['expect'])} extra={sorted(extra)} errors={rep['errors']} {round(time.time()-t)}s")
        for n in names[:12]: print("      ", n)
        sys.stdout.flush()
    finally:
        shutil.rmtree(d, ignore_errors=True)
