"""Contracts of tawazi/node/node.py (execution side): ExecNode.execute, dependencies, executed, _conf_to_values."""
import z3

from contracts.model import VAL, SUxn
from pyvc import sym
from pyvc.core import C, ContractBindError, Unsupported
from pyvc.sym import B, I, Id, Key, KPath, SBool, SId, SInt, SIter, SMap, SSeq, STerm, SVal, Sym, Val, bv, term

x = bv("x!n", Id)
arg_id = z3.Function("arg_id", I, Id)  # the i-th positional reference of the node under verification
arg_key = z3.Function("arg_key", I, KPath)
kw_has = z3.Function("kw_has", Key, B)  # keyword references, keyed by the keyword's name
kw_id = z3.Function("kw_id", Key, Id)
kw_key = z3.Function("kw_key", Key, KPath)
last_seg = z3.Function("last_segment", Key, Key)  # key.split(".")[-1]  (string function, uninterpreted)
reserved = z3.Function("is_reserved_kwarg", Key, B)
APPLY = z3.Function("apply_fn", z3.ArraySort(I, Val), I, z3.ArraySort(Key, B), z3.ArraySort(Key, Val), Val)

ID_MARK, LOC_MARK = "⟦node-id⟧", "⟦call-location⟧"


class NodeFnError(Exception):
    """an `Exception` raised by the user's function"""


class NodeFnBase(BaseException):
    """a non-`Exception` BaseException raised by the function (e.g. TawaziArgumentException of a missing argument)"""


class SKeyStr(STerm):
    """a str used as a keyword name"""

    def split(self, sep):
        if sep != ".":
            raise Unsupported("split on something else than '.'")
        outer = self

        class _Parts(Sym):
            def __getitem__(self, i):
                if i != -1:
                    raise Unsupported("only the last segment of a dotted name is modelled")
                return SKeyStr(last_seg(outer.t))

        return _Parts()

    def __eq__(self, o):
        if isinstance(o, str):
            from tawazi.consts import RESERVED_KWARGS

            if o in RESERVED_KWARGS:
                return SBool(z3.And(reserved(self.t), self.t == key_const(o)))
            return SBool(self.t == key_const(o))
        return STerm.__eq__(self, o)


_consts = {}


def key_const(name):
    if name not in _consts:
        _consts[name] = z3.Const(f"key_{name}", Key)
    return _consts[name]


def reserved_axioms():
    from tawazi.consts import RESERVED_KWARGS

    k = bv("k!r", Key)
    cs = [key_const(n) for n in RESERVED_KWARGS]
    return [z3.ForAll([k], reserved(k) == z3.Or(*[k == c for c in cs])), z3.Distinct(*cs)]


class SIdMark(SId):
    def __format__(self, spec):
        return ID_MARK

    __str__ = lambda self: ID_MARK  # noqa: E731


class SLoc(Sym):
    def __init__(self, nonempty):
        self.nonempty = nonempty

    def __bool__(self):
        return C.fork(self.nonempty, "call_location known")

    def __format__(self, spec):
        return LOC_MARK


class SKwargs(Sym):
    """Dict[str, UsageExecNode] of the node"""

    def items(self):
        return SIter(Key, lambda k: kw_has(k), lambda k: (SKeyStr(k), SUxn(kw_id(k), kw_key(k))))

    def values(self):
        return SIter(Key, lambda k: kw_has(k), lambda k: SUxn(kw_id(k), kw_key(k)))


class SFn(Sym):
    _vc_star = True

    def __call__(self, star=(), **kw):
        dstar = kw.pop("__vc_dstar", None)
        if kw:
            raise ContractBindError("exec_function called with explicit keyword arguments")
        C.ghost["calls"].append((star, dstar))
        c = C.choose("the node function raises")
        if c:
            if C.choose("... an Exception"):
                raise NodeFnError("user error")
            raise NodeFnBase("missing argument")
        if not isinstance(star, SSeq) or not isinstance(dstar, SMap):
            raise ContractBindError("exec_function must be called with *args (list) and **kwargs (dict)")
        i = bv("i!f", I)
        argarr = z3.Lambda([i], term(star.at(i), Val))
        return SVal(APPLY(argarr, star.n, dstar.dom, dstar.val))


class SXnRec(Sym):
    def __init__(self):
        self.idt = C.fresh("self_id", Id)
        self.id = SIdMark(self.idt)
        self.id_ = self.id
        self.nargs = C.fresh("nargs", I)
        C.assume(self.nargs >= 0)
        self.args = SSeq(self.nargs, lambda i: SUxn(arg_id(i), arg_key(i)), list, "args")
        self.kwargs = SKwargs()
        self.exec_function = SFn()
        self.call_location = SLoc(C.fresh("has_call_location", B))


class _Hooks:
    def uxn_result(self, uxn, results):
        C.ghost["reads"].append(uxn._i)
        return SVal(VAL(results.dom, results.val, uxn._i, uxn._k))


class _Profile(Sym):
    def __init__(self, active=None):
        self.active = active

    def __enter__(self):
        C.ghost["prof"].append("enter")
        return self

    def __exit__(self, et, ev, tb):
        # contract of Profile.__exit__ (bounded stand-in `profile`, complete on its finite domain): never swallows
        C.ghost["prof"].append("exit")
        return False


class Execute:
    module = "tawazi.node.node"
    qualname = "ExecNode.execute"
    loops = {}

    def namespace(self):
        class _Cfg:
            TAWAZI_PROFILE_ALL_NODES = False

        return {"Profile": _Profile, "cfg": _Cfg}

    def _dictcomp(self, iterable, elt, cond):
        """{f(key): value for key, uxn in kwargs.items() if cond}: keys are mapped by last_segment, assumed injective
        on the keyword names of one call (they are distinct Python identifiers behind a common dotted prefix)"""
        col = iterable._vc_iter()
        k = bv("k!dc", Key)
        xx = col.elem(k)
        with sym.Binder(k, col.pred(k)):
            c = cond(xx) if cond is not None else True
        ct = sym.tb(c)
        with sym.Binder(k, z3.And(col.pred(k), ct)):
            kk, val = elt(xx)
        j = bv("j!dc", Key)
        inv = C.fresh("name_of_segment", z3.ArraySort(Key, Key))
        C.assume(z3.ForAll([k], z3.Implies(col.pred(k), inv[last_seg(k)] == k)))  # injectivity of last_segment on the names
        if not z3.eq(kk.t, last_seg(k)):
            raise Unsupported("keyword names are expected to be mapped by key.split('.')[-1]")
        dom = z3.Lambda([j], z3.And(z3.substitute(z3.And(col.pred(k), ct), (k, inv[j])), last_seg(inv[j]) == j))
        vals = z3.Lambda([j], z3.substitute(term(val, Val), (k, inv[j])))
        return SMap(Key, Val, dom, vals, name="call_kwargs")

    def run(self, f, case):
        from tawazi.errors import TawaziBaseException

        me = SXnRec()
        results = SMap.fresh("results", Id, Val, strict=True)
        profiles = SMap.fresh("profiles", Id, Val, strict=True)
        profiles.vs = Val
        C.assume(reserved_axioms())
        # precondition (proved at every dispatch: C03.no_result_yet): the node has no result yet
        C.assume(z3.Not(results.dom[me.idt]), z3.Not(profiles.dom[me.idt]))
        d0, v0 = results.dom, results.val
        C.ghost.update(hooks=_Hooks(), calls=[], reads=[], prof=[], dictcomp=self._dictcomp)
        profiles.__class__ = type("SProfiles", (SMap,), {"__setitem__": lambda s_, k, v: SMap._set(s_, term(k), C.fresh("profile", Val)) or C.ghost.__setitem__("profobj", v), "__getitem__": lambda s_, k: C.ghost["profobj"]})
        n = "execute"
        try:
            r = f(me, results, profiles)
        except TawaziBaseException as e:
            C.check(me.call_location.nonempty, f"{n}.exceptional.C14.wrapped_only_when_the_call_location_is_known", {"C14"}, "post")
            C.check(z3.BoolVal(isinstance(e.__cause__, NodeFnError)), f"{n}.exceptional.C14.original_exception_is_the_cause", {"C14"}, "post")
            C.check(z3.BoolVal(ID_MARK in str(e) and LOC_MARK in str(e)), f"{n}.exceptional.C14.message_names_the_node_and_its_call_location", {"C14"}, "post")
            C.check(z3.And(results.dom == d0, results.val == v0), f"{n}.exceptional.C14.no_result_written_for_a_failed_node", {"C14", "C03"}, "post")
            return "raises TawaziBaseException"
        except NodeFnError:
            C.check(z3.Not(me.call_location.nonempty), f"{n}.exceptional.C14.original_exception_only_without_call_location", {"C14"}, "post")
            C.check(z3.And(results.dom == d0, results.val == v0), f"{n}.exceptional.C14.no_result_written_for_a_failed_node", {"C14", "C03"}, "post")
            return "raises the user's Exception"
        except NodeFnBase:
            C.check(z3.And(results.dom == d0, results.val == v0), f"{n}.exceptional.C14.no_result_written_for_a_failed_node", {"C14", "C03"}, "post")
            return "raises the function's BaseException unchanged"
        calls = C.ghost["calls"]
        C.check(z3.BoolVal(len(calls) == 1), f"{n}.post.C03.function_called_exactly_once", {"C03", "C01"}, "post")
        if len(calls) != 1:
            return "return"
        star, dstar = calls[0]
        i, k = bv("i!e", I), bv("k!e", Key)
        C.check(star.n == me.nargs, f"{n}.post.C01.as_many_positional_values_as_references", {"C01", "C02"}, "post")
        C.check(z3.ForAll([i], z3.Implies(z3.And(i >= 0, i < me.nargs), term(star.at(i), Val) == VAL(d0, v0, arg_id(i), arg_key(i)))), f"{n}.post.C02.positional_i_is_the_value_of_reference_i", {"C01", "C02"}, "post")
        C.check(z3.ForAll([k], z3.Implies(z3.And(kw_has(k), z3.Not(reserved(k))), z3.And(dstar.dom[last_seg(k)], dstar.val[last_seg(k)] == VAL(d0, v0, kw_id(k), kw_key(k))))),
                f"{n}.post.C02.keyword_value_is_the_value_of_its_reference", {"C01", "C02"}, "post")
        C.check(z3.ForAll([k], z3.Implies(dstar.dom[k], z3.Exists([bv("q!e", Key)], z3.And(kw_has(bv("q!e", Key)), z3.Not(reserved(bv("q!e", Key))), last_seg(bv("q!e", Key)) == k)))),
                f"{n}.post.C01.no_other_keyword_is_passed", {"C01"}, "post")
        i2 = bv("i!f", I)
        value = APPLY(z3.Lambda([i2], term(star.at(i2), Val)), star.n, dstar.dom, dstar.val)
        C.check(z3.And(results.dom == z3.Store(d0, me.idt, True), results.val == z3.Store(v0, me.idt, value)), f"{n}.post.C01.result_written_under_the_nodes_id_and_nothing_else", {"C01", "C02", "C03", "C15", "C16"}, "post")
        C.check(term(r, Val) == value, f"{n}.post.returns_the_result", {"C01"}, "post")
        C.check(profiles.dom[me.idt], f"{n}.post.profile_recorded", set(), "post")
        C.check(z3.BoolVal(C.ghost["prof"] == ["enter", "exit"]), f"{n}.post.function_runs_inside_the_profile_context", set(), "post")
        return "return"


class Dependencies:
    module = "tawazi.node.node"
    qualname = "ExecNode.dependencies"
    loops = {}

    def run(self, f, case):
        class _Args(Sym):
            def copy(self):
                C.ghost["copied"] = True
                return _Deps([("args",)])

        class _Deps(Sym):
            def __init__(self, parts):
                self.parts = parts

            def extend(self, it):
                self.parts.append(("kwargs", it))

            def append(self, v):
                self.parts.append(("active", v))

        class _Me(Sym):
            pass

        me = _Me()
        me.args = _Args()
        me.kwargs = SKwargs()
        has = C.fresh("has_active", B)
        act = SUxn(C.fresh("aid", Id), C.fresh("akey", KPath))
        me.active = sym.SOpt(has, act, "active")
        C.ghost.update(copied=False)
        r = f(me)
        kinds = [p[0] for p in r.parts]
        C.check(z3.BoolVal(C.ghost["copied"] and kinds[:2] == ["args", "kwargs"] and isinstance(r.parts[1][1], SIter)), "dependencies.post.C02.positional_then_keyword_references_on_a_fresh_list", {"C02", "C15"}, "post")
        C.check(has == z3.BoolVal("active" in kinds), "dependencies.post.C02.activation_flag_is_a_dependency_iff_present", {"C02", "C10", "C11", "C13"}, "post")
        return "return"


class ConfToValues:
    module = "tawazi.node.node"
    qualname = "ExecNode._conf_to_values"
    loops = {}

    def cases(self):
        return ["both", "priority-only", "sequential-only", "neither"]

    def namespace(self):
        class _DC:
            @staticmethod
            def asdict(o):
                return dict(o._fields)

        return {"dataclasses": _DC}

    def run(self, f, case):
        class _Me(Sym):
            pass

        me = _Me()
        fields = dict(id_="ID", exec_function="FN", priority=SInt(C.fresh("prio", I)), is_sequential=SBool(C.fresh("seq", B)), debug="D", tag="T", setup="S", unpack_to="U",
                      resource="R", call_location="L", call_location_frame=2, args="ASDICT_ARGS", kwargs="ASDICT_KWARGS", active="ASDICT_ACTIVE")
        me._fields = fields
        me.args, me.kwargs, me.active = "ARGS", "KWARGS", "ACTIVE"
        me.is_sequential, me.priority = fields["is_sequential"], fields["priority"]
        conf = {}
        np_, ns_ = SInt(C.fresh("new_prio", I)), SBool(C.fresh("new_seq", B))
        if case in ("both", "priority-only"):
            conf["priority"] = np_
        if case in ("both", "sequential-only"):
            conf["is_sequential"] = ns_
        r = f(me, conf)
        n = "_conf_to_values.post"
        C.check(z3.BoolVal(r["args"] == "ARGS" and r["kwargs"] == "KWARGS" and r["active"] == "ACTIVE"), f"{n}.C01.references_are_the_nodes_own_objects", {"C01", "C07"}, "post")
        same = all(r[k_] == fields[k_] for k_ in ("id_", "exec_function", "debug", "tag", "setup", "unpack_to", "resource", "call_location"))
        C.check(z3.BoolVal(same), f"{n}.C01.configuration_changes_no_other_field", {"C01", "C13", "C11", "C04"}, "post")
        exp_p = np_ if "priority" in conf else fields["priority"]
        exp_s = ns_ if "is_sequential" in conf else fields["is_sequential"]
        C.check(sym.ti(r["priority"]) == exp_p.t, f"{n}.C07.priority_from_the_config_or_kept", {"C07", "C06"}, "post")
        C.check(sym.tb(r["is_sequential"]) == exp_s.t, f"{n}.C05.is_sequential_from_the_config_or_kept", {"C05"}, "post")
        return "return"
