"""Which functions are under contract, grouped; which property each group serves."""
from pyvc.runner import DEFAULT_BUDGETS

U = lambda mod, name, *args: (f"contracts.{mod}", name, tuple(args))  # noqa: E731

GROUPS = {
    "scheduler": [
        U("scheduler", "AsyncExecute"),
        U("scheduler", "WaitForFinishedNodes", "conc"),
        U("scheduler", "WaitForFinishedNodes", "async"),
        U("digraph_sched", "RemoveRootNode"),
        U("digraph_sched", "RootNodes"),
    ],
    "dagproto": [
        U("dagproto", "RunSubgraph", "sync"), U("dagproto", "RunSubgraph", "async"),
        U("dagproto", "DagCall", "sync"), U("dagproto", "DagCall", "async"),
        U("dagproto", "ExecutionCall", "sync"), U("dagproto", "ExecutionCall", "async"),
        U("dagproto", "PreCall"),
    ],
    "digraph": [
        U("digraph", "SimpleQuery", "leaf_nodes"), U("digraph", "SimpleQuery", "debug_nodes"), U("digraph", "SimpleQuery", "setup_nodes"),
        U("digraph", "SimpleQuery", "single_node_successors"), U("digraph", "SimpleQuery", "multiple_nodes_successors"), U("digraph", "SimpleQuery", "ancestors_of_iter"),
        U("digraph", "MinimalInducedSubgraph"), U("digraph", "MakeSubgraph"), U("digraph", "IncludeDebugNodes"), U("digraph", "ExtendGraphWithDebugNodes"),
        U("digraph", "AssignCompoundPriority"), U("digraph", "RemoveAnyRootNode"), U("digraph", "GetTaggedNodes"),
    ],
    "values": [
        U("values", "XnActiveInCall"), U("values", "UxnResult"), U("values", "UxnGetitem"), U("values", "ExtendResultsWithArgs"),
        U("values", "ToThreadInExecutor"), U("values", "SyncExecute"), U("values", "StrictDictSetitem"), U("values", "BiDictSetitem"),
        U("values", "CopyNonSetupXns"), U("values", "GetReturnValues"),
    ],
    "dagadmin": [
        U("dagadmin", "PostInit"), U("dagadmin", "AliasToIds"), U("dagadmin", "PreSetup"), U("dagadmin", "Setup", "sync"), U("dagadmin", "Setup", "async"),
        U("dagadmin", "ExecutionPostInit"), U("dagadmin", "ExecutionSetup", "sync"), U("dagadmin", "ExecutionSetup", "async"), U("dagadmin", "ResolvedNodes"), U("dagadmin", "GetSingleXnByAlias"), U("dagadmin", "ConfigFromFile", "yaml"), U("dagadmin", "ConfigFromFile", "json"), U("dagadmin", "Executor", "sync"), U("dagadmin", "Executor", "async"),
        U("dagadmin", "PostCall"), U("dagadmin", "CacheResults"), U("dagadmin", "GetMultipleNodesAliases"), U("dagadmin", "ResultsProperty"), U("dagadmin", "ConfigFromDict"), U("dagadmin", "DetectDuplicates"),
    ],
    "nodeexec": [U("nodeexec", "Execute"), U("nodeexec", "Dependencies"), U("nodeexec", "ConfToValues")],
    "graphbuild": [U("graphbuild", "AddExecNode"), U("graphbuild", "FromExecNodes")],
    "nodebuild": [
        U("nodebuild", "MakeDefaultValueUxn"), U("nodebuild", "MakeArgs"), U("nodebuild", "MakeKwargs"), U("nodebuild", "MakeActive"),
        U("nodebuild", "UsageExecNodeProperty"), U("nodebuild", "ValidateDependencies"), U("nodebuild", "ExecNodePostInit"), U("nodebuild", "LazyCall"),
    ],
    "retwrap": [
        U("retwrap", "WrapInIteratorHelper"), U("retwrap", "WrapInSeq", "list"), U("retwrap", "WrapInSeq", "tuple"), U("retwrap", "WrapInDict"),
        U("retwrap", "WrapInUxn"), U("retwrap", "WrapInUxns"), U("retwrap", "Reflected"),
    ],
    "subdag": [U("subdag", "ConstructSubdagArgUxns"), U("subdag", "DescribeSubDag")],
    "compose": [U("compose", "AddMissingDeps"), U("compose", "Compose")],
    "decorators": [U("decorators", "XnDecorator"), U("decorators", "DagDecorator")],
    "threads": [U("threads", "InDescriptionContext"), U("threads", "ThreadsafeMakeDag"), U("threads", "WrapMakeDag"), U("threads", "MakeDag")],
}

BUDGETS = dict(DEFAULT_BUDGETS)
# obligations that are expected to fail because of an *open known finding*: do not burn the full budget on them
BUDGETS["special"] = [(".after_async_wait_blocked.C08.allowed_to_block", {"z3": 2, "cvc5": 0, "finite": 1, "kmax": 4})]
