"""Contracts of the BUILD side of tawazi/node/node.py: how a call site is recorded.

make_default_value_uxn, make_args, make_kwargs, make_active (a reference that is passed is kept as it is, a constant
becomes a holder node whose value is stored under the holder's id), LazyExecNode._usage_exec_node,
LazyExecNode._validate_dependencies (debug / setup dependency rules), ExecNode.__post_init__ (debug and setup
exclude each other), LazyExecNode.__call__ (one new table entry per call site, only by the describing thread).

Ids are an uninterpreted sort; the id of the holder of argument `slot` of node `i` is the uninterpreted function
`axn_id(i, slot)` (the string function make_axn_id; that it is injective and never collides with a user id is a
string-level fact covered by the bounded stand-ins only)."""
import z3

from contracts.model import SUxn, SXn, SXnMap, is_debug, is_setup
from contracts.nodeexec import SKeyStr, key_const, reserved, reserved_axioms
from pyvc import sym
from pyvc.core import C, ContractBindError, Unsupported
from pyvc.engine import LoopSpec
from pyvc.sym import B, I, Id, Key, KPath, SBool, SId, SInt, SIter, SMap, SSeq, STerm, SVal, Sym, Val, bv, kp_append, kp_empty, term

x = bv("x!nb", Id)
Slot = z3.DeclareSort("Slot")
slot_pos = z3.Function("slot_of_position", I, Slot)
slot_kw = z3.Function("slot_of_keyword", Key, Slot)
axn_id = z3.Function("make_axn_id", Id, Slot, Id)
int_key = z3.Function("key_of_int", I, Key)  # an int used as an indexing key
is_argnode = z3.Function("is_ArgExecNode", Id, B)

# the i-th positional argument of the call site under verification: either a reference (id, key) or a constant
a_is_uxn = z3.Function("arg_is_reference", I, B)
a_id = z3.Function("arg_ref_id", I, Id)
a_key = z3.Function("arg_ref_key", I, KPath)
a_val = z3.Function("arg_constant", I, Val)
# keyword arguments of the call site, by name
k_has = z3.Function("kwarg_given", Key, B)
k_is_uxn = z3.Function("kwarg_is_reference", Key, B)
k_id = z3.Function("kwarg_ref_id", Key, Id)
k_key = z3.Function("kwarg_ref_key", Key, KPath)
k_val = z3.Function("kwarg_constant", Key, Val)


def id_string_axioms(nargs=None):
    """ASSUMED string facts about make_axn_id / make_suffix (bounded stand-ins only): distinct argument slots of one
    call site get distinct holder ids (positions: stated for the positions of the call at hand, so that finite
    counter-models exist)"""
    i, s1, s2 = bv("i!ax", Id), bv("s1!ax", Slot), bv("s2!ax", Slot)
    a, b = bv("a!ax", I), bv("b!ax", I)
    k1, k2 = bv("k1!ax", Key), bv("k2!ax", Key)
    nargs = z3.IntVal(0) if nargs is None else nargs
    rng = z3.And(a >= 0, a < nargs, b >= 0, b < nargs)
    return [
        z3.ForAll([i, s1, s2], z3.Implies(axn_id(i, s1) == axn_id(i, s2), s1 == s2)),
        z3.ForAll([a, b], z3.Implies(z3.And(rng, slot_pos(a) == slot_pos(b)), a == b)),
        z3.ForAll([k1, k2], z3.Implies(slot_kw(k1) == slot_kw(k2), k1 == k2)),
    ]


class SArg(Sym):
    """one argument of a call site: a UsageExecNode or any other Python value"""

    def __init__(self, is_uxn, i, k, v):
        self._is, self._i, self._k, self._v = is_uxn, i, k, v

    def _vc_isinstance(self, cls):
        from tawazi.node import UsageExecNode

        classes = cls if isinstance(cls, tuple) else (cls,)
        if UsageExecNode in classes or SUxnCtor in classes:
            return SBool(self._is)
        raise Unsupported("isinstance of an argument against something else than UsageExecNode")

    def _vc_subst(self, a, b):
        s_ = lambda t: z3.substitute(t, (a, b))  # noqa: E731
        return SArg(s_(self._is), s_(self._i), s_(self._k), s_(self._v))

    def as_uxn(self):
        return SUxn(self._i, self._k)

    def _vc_val(self):
        return self._v  # stored as a plain Python value (a constant)

    def __bool__(self):
        return C.fork(sym.truthy(self._v), "truthiness of an argument value")

    def _ref(self):
        # .id / .key exist only on a UsageExecNode: on a constant it would be an AttributeError
        C.check(self._is, "no_internal_error.argument_is_a_reference", {"C14"}, "internal")
        C.assume(self._is)

    @property
    def id(self):
        self._ref()
        return SId(self._i)

    @property
    def key(self):
        self._ref()
        return STerm(self._k)


def uxn_terms(o):
    """(id term, key term) of whatever stands for a UsageExecNode"""
    if isinstance(o, SUxn):
        return o._i, o._k
    if isinstance(o, SArg):
        return o._i, o._k
    raise ContractBindError(f"a UsageExecNode is expected, got {type(o).__name__}")


class SUxnCtor:
    """the class UsageExecNode as seen by the build functions"""

    def __new__(cls, id_, key=None):
        if hasattr(key, "_vc_keypath"):
            k = key._vc_keypath()
        elif key is None:
            k = kp_empty
        elif isinstance(key, list) and len(key) == 1 and isinstance(key[0], (SInt, int)):
            k = kp_append(kp_empty, int_key(sym.ti(key[0])))
        elif isinstance(key, STerm) and key.t.sort() == KPath:
            k = key.t
        else:
            raise Unsupported("UsageExecNode(id, key) with an unmodelled key")
        return SUxn(term(id_), k)


class SUxnList(Sym):
    """a Python list of UsageExecNodes of symbolic length (append only)"""

    def __init__(self, n=None, ids=None, keys=None, name="uxns"):
        self.name = name
        self.n = z3.IntVal(0) if n is None else n
        self.ids = C.fresh("ids_" + name, z3.ArraySort(I, Id)) if ids is None else ids
        self.keys = C.fresh("keys_" + name, z3.ArraySort(I, KPath)) if keys is None else keys
        self._serial = C.next_serial()

    @staticmethod
    def fresh(name):
        n = C.fresh("len_" + name, I)
        C.assume(n >= 0)
        return SUxnList(n, name=name)

    def havoc(self):
        f = SUxnList.fresh(self.name)
        self.n, self.ids, self.keys = f.n, f.ids, f.keys

    def append(self, o):
        i_, k_ = uxn_terms(o)
        C.mutated[id(self)] = self
        self.ids = z3.Store(self.ids, self.n, i_)
        self.keys = z3.Store(self.keys, self.n, k_)
        self.n = self.n + 1

    def _vc_len(self):
        return SInt(self.n)

    def _vc_as(self, kind):
        r = SUxnList(self.n, self.ids, self.keys, self.name)
        r.kind = kind
        return r

    kind = list


class SUxnDict(Sym):
    """a Python dict  name -> UsageExecNode"""

    def __init__(self, name="kw"):
        self.name = name
        self.dom = z3.K(Key, False)
        self.ids = C.fresh("ids_" + name, z3.ArraySort(Key, Id))
        self.keys = C.fresh("keys_" + name, z3.ArraySort(Key, KPath))
        self._serial = C.next_serial()

    def havoc(self):
        self.dom = C.fresh("dom_" + self.name, sym.SetSort(Key))
        self.ids = C.fresh("ids_" + self.name, z3.ArraySort(Key, Id))
        self.keys = C.fresh("keys_" + self.name, z3.ArraySort(Key, KPath))

    def __setitem__(self, k, o):
        kt = term(k)
        i_, k_ = uxn_terms(o)
        C.mutated[id(self)] = self
        self.dom = z3.Store(self.dom, kt, True)
        self.ids = z3.Store(self.ids, kt, i_)
        self.keys = z3.Store(self.keys, kt, k_)


class SKwargs(Sym):
    """**kwargs of a call site"""

    def items(self):
        return SIter(Key, lambda k: k_has(k), lambda k: (SKeyStr(k), SArg(k_is_uxn(k), k_id(k), k_key(k), k_val(k))))

    def _vc_contains(self, name):
        if isinstance(name, str):
            return SBool(k_has(key_const(name)))
        return SBool(k_has(term(name)))

    def __getitem__(self, name):
        k = key_const(name) if isinstance(name, str) else term(name)
        C.check(k_has(k), "no_internal_error.kwargs_key_present", {"C14"}, "internal")
        C.assume(k_has(k))
        return SArg(k_is_uxn(k), k_id(k), k_key(k), k_val(k))

    def get(self, name, default=None):
        k = key_const(name) if isinstance(name, str) else term(name)
        if C.fork(k_has(k), f"keyword {name} given"):
            return SArg(k_is_uxn(k), k_id(k), k_key(k), k_val(k))
        return default


class BuildState:
    """the module-level build state of tawazi.node.node: the node table and the constants of the DAG being described"""

    def __init__(self):
        self.exec_nodes = SMap.fresh("node.exec_nodes", Id, Val, strict=True, on_missing="raise")
        self.results = SMap.fresh("node.results", Id, Val, strict=True, on_missing="raise")
        self.created = []  # ArgExecNode(...) constructions
        self.snap()

    def snap(self):
        self.s0 = (self.exec_nodes.dom, self.exec_nodes.val, self.results.dom, self.results.val)

    def untouched(self):
        return z3.And(self.exec_nodes.dom == self.s0[0], self.exec_nodes.val == self.s0[1], self.results.dom == self.s0[2], self.results.val == self.s0[3])


argnode_val = z3.Function("ArgExecNode_object", Id, Val)  # the ArgExecNode object created for id (as a table value)


class SArgNode(Sym):
    def __init__(self, i):
        self.id = SId(i)
        self._i = i


def build_ns(st):
    def ArgExecNode(id_):
        st.created.append(term(id_))
        return SArgNode(term(id_))

    def make_axn_id(id_, name_or_order):
        return SId(axn_id(term(id_), slot_of(name_or_order)))

    class _Nodes(SMap):
        pass

    en = st.exec_nodes
    orig = en.__setitem__

    def setitem(k, v):
        if isinstance(v, SArgNode):
            return orig(k, SVal(argnode_val(v._i)))
        return orig(k, v)

    en.__class__ = type("SNodeTable", (SMap,), {"__setitem__": lambda s_, k, v: setitem(k, v)})
    return {"ArgExecNode": ArgExecNode, "make_axn_id": make_axn_id, "exec_nodes": st.exec_nodes, "results": st.results, "UsageExecNode": SUxnCtor}


def slot_of(name_or_order):
    if isinstance(name_or_order, (int, SInt)) and not isinstance(name_or_order, bool):
        return slot_pos(sym.ti(name_or_order))
    if isinstance(name_or_order, str):
        return slot_kw(key_const(name_or_order))
    if isinstance(name_or_order, STerm) and name_or_order.t.sort() == Key:
        return slot_kw(name_or_order.t)
    raise Unsupported("argument slot that is neither a position nor a name")


def default_value_post(st, holder, value, d0):
    """effect of make_default_value_uxn on the build state, as formulas over (old state d0 -> current state)"""
    en, rs = st.exec_nodes, st.results
    return [
        ("holder_registered_in_the_node_table", z3.And(en.dom == z3.Store(d0[0], holder, True), en.val == z3.Store(d0[1], holder, argnode_val(holder))), {"C01", "C03"}),
        ("constant_stored_under_the_holders_id", z3.And(rs.dom == z3.Store(d0[2], holder, True), rs.val == z3.Store(d0[3], holder, value)), {"C01", "C10"}),
    ]


def make_default_value_uxn_stub(st):
    """summary contract of make_default_value_uxn (proved by MakeDefaultValueUxn)"""

    def stub(id_, name_or_order, default_value):
        holder = axn_id(term(id_), slot_of(name_or_order))
        en, rs = st.exec_nodes, st.results
        if C.fork(z3.Or(en.dom[holder], rs.dom[holder]), "holder id already used"):
            raise KeyError("key already exists")
        d0 = (en.dom, en.val, rs.dom, rs.val)
        en._set(holder, argnode_val(holder))
        rs._set(holder, constant_term(default_value))
        st.created.append(holder)
        return SUxn(holder, kp_empty)

    return stub


def constant_term(v):
    if isinstance(v, SArg):
        return v._v
    return term(v, Val)


# ====================================================================================================================
class MakeDefaultValueUxn:
    module = "tawazi.node.node"
    qualname = "make_default_value_uxn"
    loops = {}

    def cases(self):
        return ["position", "name"]

    def run(self, f, case):
        st = BuildState()
        ns = build_ns(st)
        f.__globals__.update(ns)
        i = C.fresh("call_site_id", Id)
        slot = SInt(C.fresh("position", I)) if case == "position" else SKeyStr(C.fresh("name", Key))
        value = SVal(C.fresh("constant", Val))
        holder = axn_id(i, slot_of(slot))
        d0 = st.s0
        n = "make_default_value_uxn"
        try:
            r = f(SId(i), slot, value)
        except KeyError:
            C.check(z3.Or(d0[0][holder], d0[2][holder]), f"{n}.exceptional.C03.KeyError_only_if_the_holder_id_is_already_used", {"C03", "C14"}, "post")
            return "raises KeyError"
        C.check(z3.BoolVal(len(st.created) == 1 and z3.eq(st.created[0], holder)), f"{n}.post.C01.one_holder_node_with_the_argument_id", {"C01"}, "post")
        for nm, goal, serves in default_value_post(st, holder, value.t, d0):
            C.check(goal, f"{n}.post.C01.{nm}", serves, "post")
        ri, rk = uxn_terms(r)
        C.check(z3.And(ri == holder, rk == kp_empty), f"{n}.post.C01.returns_a_plain_reference_to_the_holder", {"C01", "C10"}, "post")
        return "return"


class MakeArgs:
    module = "tawazi.node.node"
    qualname = "make_args"

    def __init__(self):
        self.loops = {0: self.Loop()}

    class Loop(LoopSpec):
        carried = ("xn_args",)

        def modifies(self, env):
            st = C.ghost["st"]
            return [st.exec_nodes, st.results]

        def rebind(self, env):
            return {"xn_args": SUxnList.fresh("xn_args")}

        def inv(self, env, st):
            return make_args_inv(env["xn_args"], st.nseen)

    def namespace(self):
        return {}

    def run(self, f, case):
        st = BuildState()
        ns = build_ns(st)
        ns["make_default_value_uxn"] = make_default_value_uxn_stub(st)
        f.__globals__.update(ns)
        i = C.fresh("call_site_id", Id)
        nargs = C.fresh("nargs", I)
        C.assume(nargs >= 0)
        args = SSeq(nargs, lambda j: SArg(a_is_uxn(j), a_id(j), a_key(j), a_val(j)), tuple, "args")
        C.assume(id_string_axioms(nargs))
        C.ghost.update(st=st, site=i, nargs=nargs)
        n = "make_args"
        try:
            r = f(SId(i), args)
        except KeyError:
            j = bv("j!ma", I)
            d0 = st.s0
            C.check(z3.Exists([j], z3.And(j >= 0, j < nargs, z3.Not(a_is_uxn(j)), z3.Or(d0[0][axn_id(i, slot_pos(j))], d0[2][axn_id(i, slot_pos(j))]))), f"{n}.exceptional.C03.KeyError_only_if_a_holder_id_is_already_used", {"C03"}, "post")
            return "raises KeyError"
        for nm, goal, serves in make_args_inv(r, nargs):
            C.check(goal, f"{n}.post.C01.{nm}", serves, "post")
        return "return"


def make_args_inv(lst, upto, holder=None, what="make_args"):
    """the list of references built so far: element j is argument j itself if it is a reference, else a plain
    reference to the holder of (call site, position j) whose constant is stored in the build state"""
    st, i = C.ghost["st"], C.ghost["site"]
    j = bv("j!ma", I)
    d0 = st.s0
    en, rs = st.exec_nodes, st.results
    if isinstance(lst, list):
        if lst:
            raise ContractBindError(f"{what}: the list of references is expected to start empty")
        n_, ids, keys = z3.IntVal(0), z3.K(I, C.ghost["site"]), z3.K(I, kp_empty)
    elif isinstance(lst, SUxnList):
        n_, ids, keys = lst.n, lst.ids, lst.keys
    else:
        raise ContractBindError(f"{what}: unexpected result type")
    holder = holder or (lambda q: axn_id(i, slot_pos(q)))  # noqa: E731
    is_new = lambda t: z3.Exists([j], z3.And(j >= 0, j < upto, z3.Not(a_is_uxn(j)), holder(j) == t))  # noqa: E731
    return [
        ("as_many_references_as_arguments", n_ == upto, {"C01"}),
        ("a_reference_is_passed_through_unchanged", z3.ForAll([j], z3.Implies(z3.And(j >= 0, j < upto, a_is_uxn(j)), z3.And(ids[j] == a_id(j), keys[j] == a_key(j)))), {"C01", "C02"}),
        ("a_constant_becomes_a_plain_reference_to_its_holder", z3.ForAll([j], z3.Implies(z3.And(j >= 0, j < upto, z3.Not(a_is_uxn(j))), z3.And(ids[j] == holder(j), keys[j] == kp_empty))), {"C01"}),
        ("the_constant_is_stored_under_the_holders_id", z3.ForAll([j], z3.Implies(z3.And(j >= 0, j < upto, z3.Not(a_is_uxn(j))), z3.And(rs.dom[holder(j)], rs.val[holder(j)] == a_val(j), en.dom[holder(j)]))), {"C01"}),
        ("nothing_else_is_registered", z3.ForAll([x], z3.Implies(z3.Not(is_new(x)), z3.And(en.dom[x] == d0[0][x], rs.dom[x] == d0[2][x], z3.Implies(d0[2][x], rs.val[x] == d0[3][x])))), {"C01", "C15"}),
    ]


class MakeKwargs:
    module = "tawazi.node.node"
    qualname = "make_kwargs"

    def __init__(self):
        self.loops = {0: self.Loop()}

    class Loop(LoopSpec):
        carried = ("xn_kwargs",)

        def modifies(self, env):
            st = C.ghost["st"]
            return [st.exec_nodes, st.results]

        def rebind(self, env):
            d = SUxnDict("xn_kwargs")
            d.havoc()
            return {"xn_kwargs": d}

        def inv(self, env, st):
            return make_kwargs_inv(env["xn_kwargs"], lambda k: st.seen[k])

    def run(self, f, case):
        st = BuildState()
        ns = build_ns(st)
        ns["make_default_value_uxn"] = make_default_value_uxn_stub(st)
        f.__globals__.update(ns)
        C.assume(reserved_axioms(), id_string_axioms())
        i = C.fresh("call_site_id", Id)
        C.ghost.update(st=st, site=i)
        n = "make_kwargs"
        d0 = st.s0
        try:
            r = f(SId(i), (), kwargs=SKwargs())
        except KeyError:
            k = bv("k!mk", Key)
            C.check(z3.Exists([k], z3.And(k_has(k), z3.Not(reserved(k)), z3.Not(k_is_uxn(k)), z3.Or(d0[0][axn_id(i, slot_kw(k))], d0[2][axn_id(i, slot_kw(k))]))), f"{n}.exceptional.C03.KeyError_only_if_a_holder_id_is_already_used", {"C03"}, "post")
            return "raises KeyError"
        for nm, goal, serves in make_kwargs_inv(r, lambda k: k_has(k)):
            C.check(goal, f"{n}.post.C01.{nm}", serves, "post")
        return "return"


def make_kwargs_inv(dct, seen):
    st, i = C.ghost["st"], C.ghost["site"]
    k = bv("k!mk", Key)
    d0 = st.s0
    en, rs = st.exec_nodes, st.results
    if isinstance(dct, dict):
        if dct:
            raise ContractBindError("make_kwargs: the dict of references is expected to start empty")
        dom, ids, keys = z3.K(Key, False), z3.K(Key, i), z3.K(Key, kp_empty)
    elif isinstance(dct, SUxnDict):
        dom, ids, keys = dct.dom, dct.ids, dct.keys
    else:
        raise ContractBindError("make_kwargs: unexpected result type")
    holder = lambda q: axn_id(i, slot_kw(q))  # noqa: E731
    given = lambda q: z3.And(seen(q), k_has(q), z3.Not(reserved(q)))  # noqa: E731
    is_new = lambda t: z3.Exists([k], z3.And(given(k), z3.Not(k_is_uxn(k)), holder(k) == t))  # noqa: E731
    return [
        ("exactly_the_non_reserved_keywords", z3.ForAll([k], dom[k] == given(k)), {"C01", "C10"}),
        ("a_reference_is_passed_through_unchanged", z3.ForAll([k], z3.Implies(z3.And(given(k), k_is_uxn(k)), z3.And(ids[k] == k_id(k), keys[k] == k_key(k)))), {"C01", "C02"}),
        ("a_constant_becomes_a_plain_reference_to_its_holder", z3.ForAll([k], z3.Implies(z3.And(given(k), z3.Not(k_is_uxn(k))), z3.And(ids[k] == holder(k), keys[k] == kp_empty))), {"C01"}),
        ("the_constant_is_stored_under_the_holders_id", z3.ForAll([k], z3.Implies(z3.And(given(k), z3.Not(k_is_uxn(k))), z3.And(rs.dom[holder(k)], rs.val[holder(k)] == k_val(k), en.dom[holder(k)]))), {"C01"}),
        ("nothing_else_is_registered", z3.ForAll([x], z3.Implies(z3.Not(is_new(x)), z3.And(en.dom[x] == d0[0][x], rs.dom[x] == d0[2][x], z3.Implies(d0[2][x], rs.val[x] == d0[3][x])))), {"C01", "C15"}),
    ]


class MakeActive:
    module = "tawazi.node.node"
    qualname = "make_active"
    loops = {}

    def run(self, f, case):
        from tawazi.consts import ARG_NAME_ACTIVATE

        st = BuildState()
        ns = build_ns(st)
        ns["make_default_value_uxn"] = make_default_value_uxn_stub(st)
        f.__globals__.update(ns)
        C.assume(reserved_axioms())
        i = C.fresh("call_site_id", Id)
        ka = key_const(ARG_NAME_ACTIVATE)
        holder = axn_id(i, slot_kw(ka))
        d0 = st.s0
        n = "make_active"
        try:
            r = f(SId(i), (), kwargs=SKwargs())
        except KeyError:
            C.check(z3.And(k_has(ka), z3.Not(k_is_uxn(ka)), z3.Or(d0[0][holder], d0[2][holder])), f"{n}.exceptional.KeyError_only_if_the_holder_id_is_already_used", {"C03"}, "post")
            return "raises KeyError"
        if r is None:
            C.check(z3.Not(k_has(ka)), f"{n}.post.C10.no_flag_only_if_twz_active_was_not_given", {"C10"}, "post")
            C.check(st.untouched(), f"{n}.post.C10.nothing_registered_without_a_flag", {"C10", "C15"}, "post")
            return "return None"
        ri, rk = uxn_terms(r)
        C.check(k_has(ka), f"{n}.post.C10.flag_only_if_twz_active_was_given", {"C10"}, "post")
        C.check(z3.Implies(k_is_uxn(ka), z3.And(ri == k_id(ka), rk == k_key(ka), st.untouched())), f"{n}.post.C10.a_reference_flag_keeps_its_id_and_key_path", {"C10", "C02"}, "post")
        C.check(z3.Implies(z3.Not(k_is_uxn(ka)), z3.And(ri == holder, rk == kp_empty, st.results.dom[holder], st.results.val[holder] == k_val(ka))), f"{n}.post.C10.a_constant_flag_is_stored_under_its_holder", {"C10"}, "post")
        return "return"


# ---- LazyExecNode._usage_exec_node --------------------------------------------------------------------------------------------
class UsageExecNodeProperty:
    module = "tawazi.node.node"
    qualname = "LazyExecNode._usage_exec_node"
    loops = {}

    def cases(self):
        return ["single", "unpacked"]

    def namespace(self):
        return {"UsageExecNode": SUxnCtor}

    def run(self, f, case):
        class _Me(Sym):
            pass

        me = _Me()
        i = C.fresh("self_id", Id)
        me.id = SId(i)
        n = "_usage_exec_node"
        if case == "single":
            me.unpack_to = None
            r = f(me)
            ri, rk = uxn_terms(r)
            C.check(z3.And(ri == i, rk == kp_empty), f"{n}.post.C01.plain_reference_to_the_node", {"C01"}, "post")
            return "return"
        u = C.fresh("unpack_to", I)
        C.assume(u >= 0)
        me.unpack_to = SInt(u)
        r = f(me)
        if not isinstance(r, SSeq) or r.kind is not tuple:
            raise ContractBindError("_usage_exec_node: a tuple is expected for an unpacked node")
        j = bv("j!u", I)
        e = r.at(j)
        ei, ek = uxn_terms(e)
        C.check(r.n == u, f"{n}.post.C01.as_many_references_as_unpack_to", {"C01"}, "post")
        C.check(z3.ForAll([j], z3.Implies(z3.And(j >= 0, j < u), z3.And(ei == i, ek == kp_append(kp_empty, int_key(j))))), f"{n}.post.C01.element_j_refers_to_index_j_of_the_nodes_result", {"C01", "C10"}, "post")
        return "return"


# ---- LazyExecNode._validate_dependencies ---------------------------------------------------------------------------------------
class SXnV(SXn):
    def _vc_isinstance(self, cls):
        return SBool(is_argnode(self._x))

    def _vc_subst(self, a, b):
        return SXnV(z3.substitute(self._x, (a, b)), self._table)

    def __format__(self, spec):
        return "<ExecNode>"


class SXnTable(SXnMap):
    def __getitem__(self, k):
        r = SXnMap.__getitem__(self, k)
        return SXnV(r._x, self)


class ValidateDependencies:
    module = "tawazi.node.node"
    qualname = "LazyExecNode._validate_dependencies"

    def __init__(self):
        self.loops = {0: self.Loop()}

    class Loop(LoopSpec):
        carried = ()

        def inv(self, env, st):
            me, dp = C.ghost["me"], C.ghost["dep"]
            d = bv("d!vd", Id)
            return [
                ("no_seen_dependency_of_a_non_debug_node_is_a_debug_node", z3.ForAll([d], z3.Implies(z3.And(st.seen[d], z3.Not(me["debug"])), z3.Not(is_debug(d)))), {"C13"}),
                ("every_seen_dependency_of_a_setup_node_is_a_setup_node_or_an_argument", z3.ForAll([d], z3.Implies(z3.And(st.seen[d], me["setup"]), z3.Or(is_setup(d), is_argnode(d)))), {"C11"}),
            ]

    def cases(self):
        return ["describing", "not-describing"]

    def run(self, f, case):
        from tawazi.errors import TawaziBaseException

        dp = z3.Function("self_dep", Id, B)
        dkey = z3.Function("self_dep_key", Id, KPath)
        dbg, stp = C.fresh("self_debug", B), C.fresh("self_setup", B)
        dom = C.fresh("table_dom", sym.SetSort(Id))
        d = bv("d!vd", Id)
        C.assume(z3.ForAll([d], z3.Implies(dp(d), dom[d])))  # every reference points to a registered node (make_* contracts)

        class _Me(Sym):
            def __format__(self, spec):
                return "<LazyExecNode>"

        me = _Me()
        me.debug, me.setup = SBool(dbg), SBool(stp)
        me.dependencies = SIter(Id, lambda q: dp(q), lambda q: SUxn(q, dkey(q)), count=None, distinct=False)
        C.ghost.update(me=dict(debug=dbg, setup=stp), dep=dp)
        f.__globals__.update({"in_description_context": (lambda: case == "describing"), "exec_nodes": SXnTable(dom, "node.exec_nodes"), "ArgExecNode": SXnV})
        n = "_validate_dependencies"
        bad_debug = z3.And(z3.Not(dbg), z3.Exists([d], z3.And(dp(d), is_debug(d))))
        bad_setup = z3.And(stp, z3.Exists([d], z3.And(dp(d), z3.Not(is_setup(d)), z3.Not(is_argnode(d)))))
        try:
            f(me)
        except TawaziBaseException:
            C.check(z3.BoolVal(case == "describing"), f"{n}.exceptional.C16.only_while_describing", {"C16"}, "post")
            C.check(z3.Or(bad_debug, bad_setup), f"{n}.exceptional.C13.refused_only_for_an_illegal_dependency", {"C13", "C11"}, "post")
            return "raises TawaziBaseException"
        if case == "describing":
            C.check(z3.Not(bad_debug), f"{n}.post.C13.non_debug_node_depending_on_a_debug_node_is_refused", {"C13"}, "post")
            C.check(z3.Not(bad_setup), f"{n}.post.C11.setup_node_depending_on_a_non_setup_node_is_refused", {"C11"}, "post")
        return "return"


# ---- ExecNode.__post_init__ -------------------------------------------------------------------------------------------------------
class ExecNodePostInit:
    module = "tawazi.node.node"
    qualname = "ExecNode.__post_init__"
    loops = {}

    def run(self, f, case):
        from tawazi.consts import Resource

        dbg, stp = C.fresh("debug", B), C.fresh("setup", B)

        class _Me(Sym):
            def __format__(self, spec):
                return "<ExecNode>"

        def fn():
            return None

        me = _Me()
        me.exec_function, me.id_, me.id, me.tag, me.priority, me.resource = fn, "some_id", "some_id", None, 0, Resource.thread
        me.args, me.kwargs, me.unpack_to, me.is_sequential = [], {}, None, False
        me.debug, me.setup = SBool(dbg), SBool(stp)
        n = "ExecNode.__post_init__"
        try:
            f(me)
        except ValueError:
            C.check(z3.And(dbg, stp), f"{n}.exceptional.C13.ValueError_only_for_a_node_that_is_both_debug_and_setup", {"C13"}, "post")
            return "raises ValueError"
        C.check(z3.Not(z3.And(dbg, stp)), f"{n}.post.C13.a_node_cannot_be_debug_and_setup", {"C13", "C11"}, "post")
        return "return"


# ---- LazyExecNode.__call__ ------------------------------------------------------------------------------------------------------------
lazy_id = z3.Function("_lazy_xn_id", Id, I, Id)  # id of the n-th use of a decorated function (string function, T3)
count_occ = z3.Function("count_occurrences", Id, sym.SetSort(Id), I)
node_val = z3.Function("recorded_node_object", Id, Val)


class LazyCall:
    """LazyExecNode.__call__: one new table entry per call site, only by the thread that is describing a DAG"""

    module = "tawazi.node.node"
    qualname = "LazyExecNode.__call__"
    loops = {}

    def cases(self):
        return ["describing", "outside:error", "outside:warning", "outside:ignore"]

    def run(self, f, case):
        from tawazi.consts import XNOutsideDAGCall
        from tawazi.errors import TawaziUsageError

        st = BuildState()
        log = dict(make_args=[], make_kwargs=[], make_active=[], ctor=[], warn=[], fn=[], deepcopy=[], loc=0)
        describing = case == "describing"
        mode = {"error": XNOutsideDAGCall.error, "warning": XNOutsideDAGCall.warning, "ignore": XNOutsideDAGCall.ignore}.get(case.split(":")[-1], XNOutsideDAGCall.error)
        sid = C.fresh("decorated_function_id", Id)
        C.assume(reserved_axioms())

        class _Fn(Sym):
            _vc_star = True

            def __call__(self, star=(), **kw):
                log["fn"].append((star, kw.get("__vc_dstar")))
                return "PLAIN-RESULT"

        FIELDS = dict(id_=SId(sid), exec_function="FN", priority="PRIO", is_sequential="SEQ", debug="DEBUG", tag="SELF-TAG", setup="SETUP", unpack_to="SELF-UNPACK",
                      resource="RES", call_location="OLD-LOC", call_location_frame=2, args="ASDICT-ARGS", kwargs="ASDICT-KWARGS", active="ASDICT-ACTIVE")

        class _New(Sym):
            def __init__(self, values):
                self.values = values
                self.id = values["id_"]
                self._usage_exec_node = "USAGE-OF-NEW"

        class _Me(Sym):
            def __format__(self, spec):
                return "<LazyExecNode>"

            def _vc_type(self):
                def ctor(**values):
                    n_ = _New(values)
                    log["ctor"].append(n_)
                    return n_

                return ctor

            def get_call_location(self):
                log["loc"] += 1
                return "NEW-LOC"

        me = _Me()
        me.id, me.exec_function, me.tag, me.unpack_to = SId(sid), _Fn(), "SELF-TAG", "SELF-UNPACK"

        def mk(name, ret):
            def stub(id_, star=(), **kw):
                log[name].append((id_, star, kw.get("__vc_dstar")))
                return ret

            stub._vc_star = True
            return stub

        class _DC:
            @staticmethod
            def asdict(o):
                return dict(FIELDS)

        class _Cfg:
            TAWAZI_EXECNODE_OUTSIDE_DAG_BEHAVIOR = mode

        class _W:
            @staticmethod
            def warn(*a, **k):
                log["warn"].append(a)

        def deepcopy(o):
            log["deepcopy"].append(o)
            return "FN-COPY"

        def count_occurrences(id_, table):
            if table is not st.exec_nodes:
                raise ContractBindError("count_occurrences must look at the table of the DAG being described")
            return SInt(count_occ(term(id_), table.dom))

        en = st.exec_nodes
        en.__class__ = type("SNodeTable", (SMap,), {"__setitem__": lambda s_, k, v_: SMap.__setitem__(s_, k, SVal(node_val(term(k)))) if isinstance(v_, _New) else SMap.__setitem__(s_, k, v_)})
        f.__globals__.update({
            "in_description_context": (lambda: describing), "cfg": _Cfg, "warnings": _W, "dataclasses": _DC, "deepcopy": deepcopy,
            "_lazy_xn_id": lambda i_, c_: SId(lazy_id(term(i_), sym.ti(c_))), "count_occurrences": count_occurrences,
            "make_args": mk("make_args", "ARGS"), "make_kwargs": mk("make_kwargs", "KWARGS"), "make_active": mk("make_active", "ACTIVE"),
            "exec_nodes": st.exec_nodes, "results": st.results,
        })
        nargs = C.fresh("nargs", I)
        C.assume(nargs >= 0)
        args = SSeq(nargs, lambda j: SArg(a_is_uxn(j), a_id(j), a_key(j), a_val(j)), tuple, "args")
        kwargs = SKwargs()
        d0 = st.s0
        n = "LazyExecNode.__call__"
        new_id = lazy_id(sid, count_occ(sid, d0[0]))
        try:
            r = f(me, args, kwargs=kwargs)
        except TawaziUsageError:
            C.check(z3.BoolVal(case == "outside:error"), f"{n}.exceptional.C16.usage_error_only_outside_a_description_in_error_mode", {"C16", "C14"}, "post")
            C.check(st.untouched(), f"{n}.exceptional.C16.build_state_untouched", {"C16", "C15"}, "post")
            return "raises TawaziUsageError"
        except KeyError:
            C.check(z3.And(z3.BoolVal(describing), d0[0][new_id]), f"{n}.exceptional.C03.KeyError_only_if_the_call_site_id_is_already_used", {"C03"}, "post")
            return "raises KeyError"
        if not describing:
            C.check(z3.BoolVal(case != "outside:error"), f"{n}.post.C16.error_mode_refuses_a_call_outside_a_description", {"C16"}, "post")
            C.check(z3.BoolVal((len(log["warn"]) == 1) == (case == "outside:warning")), f"{n}.post.C16.warning_mode_warns", {"C16"}, "post")
            ok = len(log["fn"]) == 1 and log["fn"][0][0] is args and log["fn"][0][1] is kwargs and r == "PLAIN-RESULT"
            C.check(z3.BoolVal(ok), f"{n}.post.C16.outside_a_description_the_plain_function_is_called_with_the_arguments", {"C16", "C01"}, "post")
            C.check(z3.BoolVal(not (log["make_args"] or log["make_kwargs"] or log["make_active"] or log["ctor"])), f"{n}.post.C16.nothing_is_recorded_outside_a_description", {"C16"}, "post")
            C.check(st.untouched(), f"{n}.post.C16.build_state_untouched_outside_a_description", {"C16", "C15"}, "post")
            return "return (plain call)"
        C.check(z3.BoolVal(not log["fn"]), f"{n}.post.C03.the_function_is_not_executed_while_describing", {"C03", "C01"}, "post")
        C.check(z3.BoolVal(len(log["ctor"]) == 1), f"{n}.post.C03.exactly_one_node_is_recorded_per_call", {"C03", "C01"}, "post")
        C.check(z3.BoolVal(len(log["make_args"]) == 1), f"{n}.post.C01.positional_references_are_recorded", {"C01", "C02"}, "post")
        C.check(z3.BoolVal(len(log["make_kwargs"]) == 1), f"{n}.post.C01.keyword_references_are_recorded", {"C01", "C02"}, "post")
        C.check(z3.BoolVal(len(log["make_active"]) == 1), f"{n}.post.C10.the_activation_flag_is_recorded", {"C10", "C02"}, "post")
        ok = len(log["ctor"]) == 1 and all(len(log[k_]) == 1 for k_ in ("make_args", "make_kwargs", "make_active"))
        if not ok:
            return "return"
        new = log["ctor"][0]
        vals = new.values
        C.check(term(vals["id_"]) == new_id, f"{n}.post.C03.the_call_site_gets_the_next_id_of_the_decorated_function", {"C03"}, "post")
        ids_ok = all(isinstance(log[k_][0][0], SId) and z3.eq(log[k_][0][0].t, term(vals["id_"])) for k_ in ("make_args", "make_kwargs", "make_active"))
        C.check(z3.BoolVal(ids_ok), f"{n}.post.C01.argument_holders_are_made_for_this_call_site", {"C01"}, "post")
        fwd = log["make_args"][0][1] is args and log["make_kwargs"][0][2] is kwargs and log["make_active"][0][2] is kwargs
        C.check(z3.BoolVal(fwd), f"{n}.post.C01.the_calls_own_arguments_are_recorded", {"C01", "C10"}, "post")
        C.check(z3.BoolVal(vals["args"] == "ARGS" and vals["kwargs"] == "KWARGS" and vals["active"] == "ACTIVE"), f"{n}.post.C01.references_of_the_new_node_are_those_of_the_call", {"C01", "C02", "C10"}, "post")
        C.check(z3.BoolVal(vals["exec_function"] == "FN-COPY" and log["deepcopy"] and log["deepcopy"][0] is me.exec_function), f"{n}.post.C01.the_new_node_runs_a_copy_of_the_decorated_function", {"C01"}, "post")
        same = all(vals[k_] == FIELDS[k_] for k_ in ("priority", "is_sequential", "debug", "setup", "resource"))
        C.check(z3.BoolVal(same), f"{n}.post.C01.scheduling_attributes_are_those_of_the_decorated_function", {"C01", "C04", "C05", "C11", "C13"}, "post")
        C.check(z3.And(en.dom == z3.Store(d0[0], new_id, True), en.val == z3.Store(d0[1], new_id, node_val(new_id))), f"{n}.post.C03.exactly_the_new_node_is_added_to_the_table", {"C03", "C01", "C16"}, "post")
        C.check(z3.And(st.results.dom == d0[2], st.results.val == d0[3]), f"{n}.post.constants_untouched_here", {"C15"}, "post")
        C.check(z3.BoolVal(r == "USAGE-OF-NEW"), f"{n}.post.C01.returns_the_references_to_the_new_node", {"C01"}, "post")
        # per call overrides
        from tawazi.consts import ARG_NAME_TAG, ARG_NAME_UNPACK_TO

        for nm, key, own in (("tag", ARG_NAME_TAG, "SELF-TAG"), ("unpack_to", ARG_NAME_UNPACK_TO, "SELF-UNPACK")):
            k_ = key_const(key)
            got = vals[nm]
            if isinstance(got, SArg):
                C.check(z3.And(k_has(k_), got._v == k_val(k_)), f"{n}.post.per_call_{nm}_is_the_one_given", {"C12"} if nm == "tag" else {"C01"}, "post")
            else:
                C.check(z3.BoolVal(got == own), f"{n}.post.{nm}_defaults_to_the_decorated_functions", {"C12"} if nm == "tag" else {"C01"}, "post")
        return "return"
