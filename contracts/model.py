"""Symbolic views of tawazi's own data types (DESIGN.md 3.1): ExecNode records as uninterpreted functions of
the node id, UsageExecNode as (id, key path), node tables, BiDict."""
import z3

from pyvc import sym
from pyvc.core import C, Unsupported
from pyvc.sym import (B, I, Id, Fut, KPath, ResSort, R_ASYNC, R_MAIN, R_THREAD, SBool, SId, SInt, SIter, SMap, SOpt, STerm, Sym, Val,
                      bv, getpath, none, term, truthy, wrap)

# attributes of the ExecNode whose id is x (static during one execution: ExecNode is a frozen dataclass)
seq = z3.Function("is_sequential", Id, B)
res = z3.Function("resource", Id, ResSort)
prio = z3.Function("priority", Id, I)
is_debug = z3.Function("debug", Id, B)
is_setup = z3.Function("setup", Id, B)
has_act = z3.Function("has_active", Id, B)
act_id = z3.Function("active_id", Id, Id)
act_key = z3.Function("active_key", Id, KPath)
dep = z3.Function("dep", Id, Id, B)  # dep(x, d): d is the id of a dependency (arg, kwarg or activation) of x
argdep = z3.Function("argdep", Id, Id, B)  # d is referenced by a positional argument of x
kwdep = z3.Function("kwdep", Id, Id, B)  # d is referenced by a keyword argument of x
node_of = z3.Function("node_of", Fut, Id)  # ghost: the node a future was created for


def dependencies_summary():
    """summary contract of ExecNode.dependencies (proved in contracts/nodeexec.py Dependencies: positional references,
    then keyword references, then the activation reference iff there is one)"""
    a, b = bv("a!dp", Id), bv("b!dp", Id)
    return z3.ForAll([a, b], dep(a, b) == z3.Or(argdep(a, b), kwdep(a, b), z3.And(has_act(a), act_id(a) == b)))


def VAL(rdom, rval, i, k):
    """UsageExecNode.result: the value of reference (i, k) in a results map; absent id reads as None"""
    return z3.If(rdom[i], getpath(rval[i], k), none)


def ACTIVE(rdom, rval, x):
    """activation of node x against a results map (property C10: truthiness of the flag after its key path)"""
    return z3.Or(z3.Not(has_act(x)), truthy(VAL(rdom, rval, act_id(x), act_key(x))))


class SEnumRes(STerm):
    def __eq__(self, o):
        from tawazi.consts import Resource

        m = {Resource.main_thread: R_MAIN, Resource.thread: R_THREAD, Resource.async_thread: R_ASYNC}
        if isinstance(o, Resource):
            return SBool(self.t == m[o])
        if isinstance(o, SEnumRes):
            return SBool(self.t == o.t)
        return SBool(False)

    def __ne__(self, o):
        return ~self.__eq__(o)


class SUxn(Sym):
    """UsageExecNode(id, key)"""

    def __init__(self, i, k):
        self._i, self._k = i, k

    @property
    def id(self):
        return SId(self._i)

    @property
    def key(self):
        return STerm(self._k)

    def result(self, results):
        return C.ghost["hooks"].uxn_result(self, results)

    def _vc_subst(self, v, w):
        return SUxn(z3.substitute(self._i, (v, w)), z3.substitute(self._k, (v, w)))

    def _vc_isinstance(self, cls):
        from tawazi.node import UsageExecNode

        classes = cls if isinstance(cls, tuple) else (cls,)
        return UsageExecNode in classes or any(getattr(c, "__name__", "") == "SUxnCtor" for c in classes)


class SXn(Sym):
    """ExecNode with id `x` (a term); attributes are the uninterpreted functions above"""

    def __init__(self, x, table=None):
        self._x, self._table = x, table

    @property
    def id(self):
        return SId(self._x)

    id_ = id

    @property
    def is_sequential(self):
        return SBool(seq(self._x))

    @property
    def resource(self):
        return SEnumRes(res(self._x))

    @property
    def priority(self):
        return SInt(prio(self._x))

    @property
    def debug(self):
        return SBool(is_debug(self._x))

    @property
    def setup(self):
        return SBool(is_setup(self._x))

    @property
    def active(self):
        return SOpt(has_act(self._x), SUxn(act_id(self._x), act_key(self._x)), "xn.active")

    @property
    def execute(self):
        return SBoundExecute(self)

    def executed(self, results):
        return results._vc_contains(self.id)

    def _vc_subst(self, v, w):
        return SXn(z3.substitute(self._x, (v, w)), self._table)


class SBoundExecute(Sym):
    """the bound method `xn.execute`; calling it inline is delegated to the ghost hooks"""

    def __init__(self, xn):
        self.xn = xn

    def __call__(self, *a, **k):
        return C.ghost["hooks"].inline_execute(self.xn, *a, **k)


class SXnMap(Sym):
    """StrictDict[Identifier, ExecNode] with the table invariant exec_nodes[k].id == k"""

    def __init__(self, dom, name="exec_nodes"):
        self.dom, self.name = dom, name
        self._serial = C.next_serial()

    def _vc_contains(self, k):
        return SBool(self.dom[term(k)])

    def __getitem__(self, k):
        kt = term(k)
        C.check(self.dom[kt], f"no_internal_error.{self.name}_key_present", serves={"C14"}, kind="internal")
        C.assume(self.dom[kt])
        return SXn(kt, self)

    def items(self):
        return SIter(Id, lambda v: self.dom[v], lambda v: (SId(v), SXn(v, self)))

    def values(self):
        return SIter(Id, lambda v: self.dom[v], lambda v: SXn(v, self))

    def _vc_iter(self):
        return SIter(Id, lambda v: self.dom[v], lambda v: SId(v))


class SBiDict(Sym):
    """tawazi._dag.helpers.BiDict[Id, Fut]: forward map + `inverse` map (class invariant: inverse = forward^-1).
    The class itself is verified against this view in contracts/bidict.py; here its methods are contract stubs."""

    def __init__(self, name="bidict"):
        self.name = name
        self.fwd = SMap.empty(Id, Fut, name=name)
        self.inv = SMap.empty(Fut, Id, name=name + ".inverse")
        self._serial = C.next_serial()

    def havoc(self):
        self.fwd.havoc()
        self.inv.havoc()

    def _vc_parts(self):
        return (self.fwd, self.inv)

    def class_invariant(self):
        x, f = bv("x!bd", Id), bv("f!bd", Fut)
        return [
            z3.ForAll([x], z3.Implies(self.fwd.dom[x], z3.And(self.inv.dom[self.fwd.val[x]], self.inv.val[self.fwd.val[x]] == x))),
            z3.ForAll([f], z3.Implies(self.inv.dom[f], z3.And(self.fwd.dom[self.inv.val[f]], self.fwd.val[self.inv.val[f]] == f))),
        ]

    @property
    def inverse(self):
        return self.inv

    def __getitem__(self, k):
        return self.fwd[k]

    def _vc_contains(self, k):
        return self.fwd._vc_contains(k)

    def __setitem__(self, k, v):
        # contract of BiDict.__setitem__ (contracts/bidict.py): raises ValueError iff v is the image of a key
        kt, vt = term(k), term(v)
        C.check(z3.Not(self.inv.dom[vt]), f"no_internal_error.{self.name}_value_not_already_mapped", serves={"C14"}, kind="internal")
        C.assume(z3.Not(self.inv.dom[vt]))
        C.mutated[id(self)] = self
        old_has, old_v = self.fwd.dom[kt], self.fwd.val[kt]
        # del self.inverse[self[key]] if key in self
        self.inv.dom = z3.If(old_has, z3.Store(self.inv.dom, old_v, False), self.inv.dom)
        self.fwd._set(kt, vt)
        self.inv._set(vt, kt)
