"""Contracts of the graph *construction* functions of tawazi/_dag/digraph.py: DiGraphEx.add_exec_node and
DiGraphEx.from_exec_nodes.  They establish what every execution relies on (wf_exec P2 / P3 of DESIGN section 4):
the edge relation of the DAG's graph is exactly the dependency relation of the node table (positional, keyword and
activation references alike), the graph is acyclic or the build is refused, the debug / setup / priority tables are
those of the nodes, a setup node depending on a DAG input is refused (C11), and the compound priority table is the
documented function of the node priorities (C07).

View of a graph under construction (`SGraphB`): explicit node set `N` and explicit edge set `Eb` (both grow).  Once
`assign_compound_priority` / `find_cycle` need the fixed-edge view of the other contracts, the global edge relation
`E` is *defined* to be `Eb` (E is uninterpreted and otherwise unconstrained in these units, so this is a definitional
extension)."""
import z3

from contracts.digraph import desc_set
from contracts.model import SUxn, SXn, SXnMap, argdep, kwdep, dep, dependencies_summary, has_act, act_id, act_key, is_debug, is_setup, prio
from pyvc import lib, sym
from pyvc.core import C, ContractBindError, Unsupported
from pyvc.engine import LoopSpec
from pyvc.lib import E, Reach, rank, reach_theory
from pyvc.sym import B, I, Id, KPath, SBool, SId, SInt, SIter, SList, SMap, SSeq, SSet, STerm, Sym, Val, bv, setsum, term

x, u, v, d = bv("x!b", Id), bv("u!b", Id), bv("v!b", Id), bv("d!b", Id)
dep_key = z3.Function("dep_key", Id, Id, KPath)  # key path of (one of) the references of node x to node d
tag_list = z3.Function("tag_list", Id, Val)  # the list of tags of node x (as stored in the graph's tag table)
has_tags = z3.Function("has_tags", Id, B)
single_tag = z3.Function("tag_is_a_single_str", Id, B)
ESort = z3.ArraySort(Id, sym.SetSort(Id))


def deps_of(xt):
    """summary contract of ExecNode.dependencies (contracts/nodeexec.py: positional ++ keyword ++ activation
    references), abstracted to the SET of referenced ids: an iteration over it visits every referenced id"""
    return SIter(Id, lambda q: dep(xt, q), lambda q: SUxn(q, dep_key(xt, q)), count=None, distinct=False)


class STag(Sym):
    """ExecNode.tag of node x: None / a str / a tuple of str"""

    def __init__(self, xt):
        self.xt = xt

    def __bool__(self):
        return C.fork(has_tags(self.xt), "node has tags")

    def _vc_isinstance(self, cls):
        classes = cls if isinstance(cls, tuple) else (cls,)
        if str in classes:
            return bool(SBool(single_tag(self.xt)))
        raise Unsupported("isinstance of a tag against something else than str")

    def _vc_iter(self):
        it = SIter(Id, lambda q: q == self.xt, lambda q: STagElem(q), count=z3.IntVal(1))
        it._tags_of = self.xt
        return it


class STagElem(Sym):
    def __init__(self, xt):
        self.xt = xt

    def _vc_subst(self, a, b):
        return STagElem(z3.substitute(self.xt, (a, b)))


class STagTable(SMap):
    """graph.tag: what is stored must be the tag list of the node it is stored under"""

    def __setitem__(self, k, val):
        kt = term(k)
        owner = None
        if isinstance(val, list) and len(val) == 1 and isinstance(val[0], STag):
            owner = val[0].xt
        elif isinstance(val, SIter):
            # [t for t in node.tag]: a one-to-one copy of the tags of the node the collection ranges over
            o = C.fresh("tag_owner", val.sort)
            C.assume(val.pred(o))
            e = val.elem(o)
            if isinstance(e, STagElem):
                owner = e.xt
        elif isinstance(val, list) and val and all(isinstance(e, STagElem) for e in val):
            owner = val[0].xt
        if owner is None:
            raise Unsupported("tag table: stored value is not the tag list of a node")
        self._set(kt, tag_list(owner))


class SXnB(SXn):
    """ExecNode view used while a graph is built: adds `dependencies`, `tag`"""

    @property
    def dependencies(self):
        return deps_of(self._x)

    @property
    def args(self):
        xt = self._x
        return SIter(Id, lambda q: argdep(xt, q), lambda q: SUxn(q, dep_key(xt, q)), count=None, distinct=False)

    @property
    def kwargs(self):
        xt = self._x

        class _Kw(Sym):
            def values(self):
                return SIter(Id, lambda q: kwdep(xt, q), lambda q: SUxn(q, dep_key(xt, q)), count=None, distinct=False)

        return _Kw()

    @property
    def tag(self):
        return STag(self._x)

    def __format__(self, spec):
        return "<ExecNode>"


class SXnMapB(SXnMap):
    def values(self):
        return SIter(Id, lambda q: self.dom[q], lambda q: SXnB(q, self))

    def items(self):
        return SIter(Id, lambda q: self.dom[q], lambda q: (SId(q), SXnB(q, self)))

    def __getitem__(self, k):
        r = SXnMap.__getitem__(self, k)
        return SXnB(r._x, self)


def _table(name, vs, default):
    return SMap(Id, vs, z3.K(Id, False), z3.K(Id, default), default=default, name=name)


class SGraphB(Sym):
    """a DiGraphEx while it is built (networkx contracts of add_node / add_edges_from: TRUSTED, pyvc/lib.py style)"""

    def __init__(self, *a, **k):
        if a or k:
            raise Unsupported("DiGraphEx(...) with arguments")
        self.N = z3.K(Id, False)
        self.Eb = z3.K(Id, z3.K(Id, False))
        self.tag = STagTable(Id, Val, z3.K(Id, False), z3.K(Id, sym.none), default=sym.none, name="tag")
        self.debug = _table("debug", B, z3.BoolVal(False))
        self.setup = _table("setup", B, z3.BoolVal(False))
        self.compound_priority = _table("compound_priority", I, z3.IntVal(0))
        self.frozen = False
        self.acyclic_known = False
        self._serial = C.next_serial()
        C.ghost.setdefault("graphs_built", []).append(self)

    def _vc_parts(self):
        return (self.tag, self.debug, self.setup, self.compound_priority)

    def havoc(self):
        self.N = C.fresh("N_b", sym.SetSort(Id))
        self.Eb = C.fresh("E_b", ESort)
        for t in self._vc_parts():
            t.havoc()

    def _touch(self):
        C.mutated[id(self)] = self

    # -- networkx (trusted)
    def add_node(self, n):
        self._touch()
        self.N = z3.Store(self.N, term(n), True)

    def add_edges_from(self, edges):
        """every pair (a, b) of `edges` becomes an edge, both end points become nodes"""
        self._touch()
        if isinstance(edges, (list, tuple)):
            for a, b in edges:
                at, bt = term(a), term(b)
                self.N = z3.Store(z3.Store(self.N, at, True), bt, True)
                self.Eb = z3.Store(self.Eb, at, z3.Store(self.Eb[at], bt, True))
            return
        if not hasattr(edges, "_vc_iter"):
            raise Unsupported("add_edges_from of an unknown collection")
        col = edges._vc_iter()
        q = bv("q!ae", col.sort)
        pair = col.elem(q)
        if not (isinstance(pair, tuple) and len(pair) == 2):
            raise Unsupported("add_edges_from: elements are not pairs")
        a_t, b_t = term(pair[0]), term(pair[1])
        N0, E0 = self.N, self.Eb
        self.N = C.fresh("N_b", sym.SetSort(Id))
        self.Eb = C.fresh("E_b", ESort)
        a, b = bv("a!ae", Id), bv("b!ae", Id)
        C.assume(
            z3.ForAll([a, b], self.Eb[a][b] == z3.Or(E0[a][b], z3.Exists([q], z3.And(col.pred(q), a_t == a, b_t == b)))),
            z3.ForAll([a], self.N[a] == z3.Or(N0[a], z3.Exists([q], z3.And(col.pred(q), z3.Or(a_t == a, b_t == a))))),
        )

    def _vc_contains(self, n):
        return SBool(self.N[term(n)])

    # -- DiGraphEx methods under their own contracts
    def add_exec_node(self, xn):
        AddExecNode.stub(self, xn)

    def freeze(self):
        """from here on the graph is looked at through the fixed-edge view of the other contracts: E := Eb"""
        if not self.frozen:
            a, b = bv("a!fz", Id), bv("b!fz", Id)
            C.assume(z3.ForAll([a, b], E(a, b) == self.Eb[a][b]))
            self.frozen = (self.N, self.Eb)

    def assign_compound_priority(self):
        """summary contract of DiGraphEx.assign_compound_priority (contracts/digraph.py AssignCompoundPriority):
        cp'[n] = cp[n] + sum of cp over the SET of strict descendants, for the nodes of the graph"""
        self.freeze()
        reach_theory().register(self.N)
        own = self.compound_priority.val
        N = self.N
        self.compound_priority.havoc()
        C.mutated[id(self.compound_priority)] = self.compound_priority
        cp = self.compound_priority.val
        C.assume(z3.ForAll([x], z3.Implies(N[x], cp[x] == own[x] + setsum(own, desc_set(N, x)))), z3.ForAll([x], z3.Implies(z3.Not(N[x]), cp[x] == own[x])))
        C.ghost["acp"] = C.ghost.get("acp", 0) + 1
        C.ghost["acp_own"] = own
        C.ghost["acp_state"] = (self.N, self.Eb)


class NetworkXNoCycle(Exception):
    pass


class NetworkXUnfeasible(Exception):
    pass


def find_cycle(g):
    """networkx.find_cycle (TRUSTED): raises NetworkXNoCycle iff the graph is acyclic, i.e. iff its edges admit a
    topological rank; otherwise returns a cycle"""
    if not isinstance(g, SGraphB):
        raise Unsupported("find_cycle of something else than the graph under construction")
    g.freeze()
    if g.frozen[1] is not g.Eb and not z3.eq(g.frozen[1], g.Eb):
        raise Unsupported("graph modified after it was frozen")
    if C.choose("the graph has a cycle"):
        C.ghost["cyclic"] = True
        return "CYCLE"
    C.assume(lib.acyclic_axiom())
    C.ghost["acyclic_checked"] = (g.N, g.Eb)
    raise NetworkXNoCycle()


def build_ns():
    return {"DiGraphEx": SGraphB, "find_cycle": find_cycle, "NetworkXNoCycle": NetworkXNoCycle, "NetworkXUnfeasible": NetworkXUnfeasible}


# ====================================================================================================================
class AddExecNode:
    module = "tawazi._dag.digraph"
    qualname = "DiGraphEx.add_exec_node"
    loops = {}

    @staticmethod
    def ensures(N0, E0, xt, N1, E1):
        a, b = bv("a!ax", Id), bv("b!ax", Id)
        return [
            ("C02.every_reference_of_the_node_becomes_an_edge", z3.ForAll([a], z3.Implies(dep(xt, a), E1[a][xt])), {"C02", "C09", "C11"}),
            ("C08.no_other_edge_is_added", z3.ForAll([a, b], z3.Implies(z3.And(E1[a][b], z3.Not(E0[a][b])), z3.And(b == xt, dep(xt, a)))), {"C08", "C12", "C06"}),
            ("edges_kept", z3.ForAll([a, b], z3.Implies(E0[a][b], E1[a][b])), {"C02"}),
            ("C03.node_and_its_dependencies_are_nodes", z3.ForAll([a], N1[a] == z3.Or(N0[a], a == xt, dep(xt, a))), {"C03", "C09"}),
        ]

    def run(self, f, case):
        g = SGraphB()
        g.havoc()
        C.assume(dependencies_summary())
        xt = C.fresh("xn_id", Id)
        N0, E0 = g.N, g.Eb
        t0 = (g.tag.val, g.debug.val, g.setup.val, g.compound_priority.val)
        f(g, SXnB(xt))
        for nm, goal, serves in self.ensures(N0, E0, xt, g.N, g.Eb):
            C.check(goal, f"add_exec_node.post.{nm}", serves, "post")
        C.check(z3.And(*[p == q_ for p, q_ in zip(t0, (g.tag.val, g.debug.val, g.setup.val, g.compound_priority.val))]), "add_exec_node.frame.tables_untouched", {"C07", "C13"}, "frame")
        return "return"

    @staticmethod
    def stub(g, xn):
        if not isinstance(xn, SXn):
            raise ContractBindError("add_exec_node: argument is not an ExecNode")
        N0, E0 = g.N, g.Eb
        g._touch()
        g.N = C.fresh("N_b", sym.SetSort(Id))
        g.Eb = C.fresh("E_b", ESort)
        for _, goal, _ in AddExecNode.ensures(N0, E0, xn._x, g.N, g.Eb):
            C.assume(goal)


class FromExecNodes:
    module = "tawazi._dag.digraph"
    qualname = "DiGraphEx.from_exec_nodes"

    def __init__(self):
        self.loops = {0: self.Loop()}

    class Loop(LoopSpec):
        carried = ()
        local_ok = ()

        def modifies(self, env):
            g = env["graph"]
            if not isinstance(g, SGraphB):
                raise ContractBindError("from_exec_nodes: `graph` is not the graph under construction")
            return [g]

        def inv(self, env, st):
            g = env["graph"]
            dom = C.ghost["dom"]
            is_in = C.ghost["is_input"]
            a, b = bv("a!fi", Id), bv("b!fi", Id)
            return [
                ("seen_nodes_are_graph_nodes", z3.ForAll([a], z3.Implies(st.seen[a], g.N[a])), {"C03", "C09"}),
                ("graph_nodes_are_table_keys", z3.ForAll([a], z3.Implies(g.N[a], dom[a])), {"C03", "C14"}),
                ("edges_are_exactly_the_references_of_the_seen_nodes", z3.ForAll([a, b], g.Eb[a][b] == z3.And(st.seen[b], dep(b, a))), {"C02", "C08", "C09", "C12"}),
                ("debug_table_of_seen_nodes", z3.ForAll([a], g.debug.val[a] == z3.And(st.seen[a], is_debug(a))), {"C13"}),
                ("setup_table_of_seen_nodes", z3.ForAll([a], g.setup.val[a] == z3.And(st.seen[a], is_setup(a))), {"C11"}),
                ("priority_table_of_seen_nodes", z3.ForAll([a], g.compound_priority.val[a] == z3.If(st.seen[a], prio(a), 0)), {"C07", "C06"}),
                ("tag_table_of_seen_nodes", z3.ForAll([a], g.tag.val[a] == z3.If(z3.And(st.seen[a], has_tags(a)), tag_list(a), sym.none)), {"C12"}),
                ("no_seen_setup_node_depends_on_an_input", z3.ForAll([a, b], z3.Implies(z3.And(st.seen[a], is_setup(a), dep(a, b)), z3.Not(is_in(b)))), {"C11"}),
            ]

    def namespace(self):
        return build_ns()

    def run(self, f, case):
        from tawazi.errors import TawaziUsageError

        from contracts.dagproto import in_id

        dom = C.fresh("xn_dom", sym.SetSort(Id))
        table = SXnMapB(dom, "exec_nodes")
        n_in = C.fresh("n_inputs", I)
        C.assume(n_in >= 0)
        inputs = SSeq(n_in, lambda i: SUxn(in_id(i), sym.kp_empty), list, "input_nodes")
        i = bv("i!fe", I)
        is_input = lambda t: z3.Exists([i], z3.And(i >= 0, i < n_in, in_id(i) == t))  # noqa: E731
        # precondition wf_table: every reference of a node of the table points to a node of the table
        C.assume(z3.ForAll([x, d], z3.Implies(z3.And(dom[x], dep(x, d)), dom[d])))
        C.assume(dependencies_summary())
        C.ghost.update(dom=dom, is_input=is_input, graphs_built=[], acp=0, cyclic=False)
        n = "from_exec_nodes"
        try:
            g = f(None, inputs, table)
        except TawaziUsageError:
            C.check(z3.Exists([x, d], z3.And(dom[x], is_setup(x), dep(x, d), is_input(d))), f"{n}.exceptional.C11.TawaziUsageError_only_for_a_setup_node_that_depends_on_a_DAG_input", {"C11"}, "post")
            return "raises TawaziUsageError"
        except NetworkXUnfeasible:
            C.check(z3.BoolVal(bool(C.ghost["cyclic"])), f"{n}.exceptional.C09.NetworkXUnfeasible_only_for_a_cyclic_graph", {"C09"}, "post")
            return "raises NetworkXUnfeasible"
        if not isinstance(g, SGraphB):
            raise ContractBindError("from_exec_nodes does not return the graph it built")
        p = f"{n}.post"
        C.check(z3.BoolVal(len(C.ghost["graphs_built"]) == 1), f"{p}.C15.one_fresh_graph", {"C15", "C16"}, "post")
        C.check(z3.ForAll([x], g.N[x] == dom[x]), f"{p}.C03.nodes_are_exactly_the_keys_of_the_node_table", {"C03", "C09", "C12"}, "post")
        C.check(z3.ForAll([x, d], z3.Implies(z3.And(dom[x], dep(x, d)), g.Eb[d][x])), f"{p}.C02.P2.every_reference_positional_keyword_or_activation_is_an_edge", {"C02", "C09", "C10"}, "post")
        C.check(z3.ForAll([x, d], z3.Implies(g.Eb[d][x], z3.And(dom[x], dep(x, d)))), f"{p}.C08.edges_only_from_references", {"C08", "C12", "C06"}, "post")
        frozen = g.frozen and (z3.eq(g.frozen[1], g.Eb))
        C.check(z3.BoolVal(bool(frozen)), f"{p}.graph_not_modified_after_the_cycle_check", {"C09"}, "post")
        a, b = bv("a!fp", Id), bv("b!fp", Id)
        C.check(z3.ForAll([a, b], z3.Implies(g.Eb[a][b], rank(a) < rank(b))), f"{p}.C09.P3.cyclic_graphs_are_refused", {"C09", "C02"}, "post")
        C.check(z3.ForAll([x], z3.Implies(dom[x], z3.Not(z3.And(is_setup(x), z3.Exists([d], z3.And(dep(x, d), is_input(d))))))), f"{p}.C11.a_setup_node_depending_on_a_DAG_input_is_refused", {"C11"}, "post")
        C.check(z3.ForAll([x], g.debug.val[x] == z3.And(dom[x], is_debug(x))), f"{p}.C13.debug_table_is_the_nodes_debug_flags", {"C13"}, "post")
        C.check(z3.ForAll([x], g.setup.val[x] == z3.And(dom[x], is_setup(x))), f"{p}.C11.setup_table_is_the_nodes_setup_flags", {"C11"}, "post")
        C.check(z3.ForAll([x], g.tag.val[x] == z3.If(z3.And(dom[x], has_tags(x)), tag_list(x), sym.none)), f"{p}.C12.tag_table_is_the_nodes_tags", {"C12"}, "post")
        # C07: compound priority = own priority + sum over the set of distinct strict descendants
        if not g.frozen:
            C.check(z3.BoolVal(False), f"{p}.C07.compound_priority_assigned", {"C07", "C06"}, "post")
            return "return"
        reach_theory().register(g.N)
        own = z3.Lambda([x], z3.If(dom[x], prio(x), 0))
        C.check(z3.BoolVal(C.ghost["acp"] == 1), f"{p}.C07.compound_priority_assigned_once", {"C07", "C06"}, "post")
        if C.ghost["acp"] == 1:
            st = C.ghost["acp_state"]
            C.check(z3.BoolVal(z3.eq(st[0], g.N) and z3.eq(st[1], g.Eb)), f"{p}.C07.compound_priority_assigned_on_the_final_graph", {"C07", "C06"}, "post")
            C.check(z3.ForAll([x], C.ghost["acp_own"][x] == own[x]), f"{p}.C07.compound_priority_computed_from_the_nodes_own_priorities", {"C07", "C06"}, "post")
        cp = g.compound_priority.val
        C.check(z3.ForAll([x], z3.Implies(dom[x], cp[x] == own[x] + setsum(C.ghost.get("acp_own", own), desc_set(g.N, x)))), f"{p}.C07.own_priority_plus_sum_over_the_set_of_distinct_descendants", {"C07", "C06"}, "post")
        return "return"
