"""Sidecar contracts of the real tawazi functions, keyed by module + qualified name (+ loop ordinal)."""
