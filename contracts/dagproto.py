"""Contracts of the DAG / executor protocol (tawazi/_dag/dag.py, run side): run_subgraph, DAG.__call__ (run branch),
AsyncDAG.__call__, setup, _pre_call, _post_call, DAGExecution.__call__.  The scheduler itself appears here only
through the *summary contract* of async_execute (its proved post-condition, contracts/scheduler.py)."""
import z3

from contracts.digraph_sched import SDiGraphEx
from contracts.model import VAL, SUxn, SXn, SXnMap, is_debug, is_setup
from contracts.scheduler import NodeFailure
from pyvc import sym
from pyvc.core import C, ContractBindError, Unsupported
from pyvc.engine import LoopSpec, SAwaitable
from pyvc.sym import B, I, Id, KPath, SBool, SId, SInt, SMap, SSeq, SSet, SVal, Sym, Val, bv, kp_empty, none, term

x = bv("x!d", Id)
in_id = z3.Function("input_id", I, Id)  # id of the i-th input of the DAG


class SDag(Sym):
    """BaseDAG / DAG / AsyncDAG instance"""

    def __init__(self, flavour="sync", name="dag"):
        self._flavour = flavour
        self.xn_dom = C.fresh("xn_dom", sym.SetSort(Id))
        self.exec_nodes = SXnMap(self.xn_dom, name="dag.exec_nodes")
        self.results = SMap.fresh("dag.results", Id, Val, strict=True)
        self._results0 = (self.results.dom, self.results.val)
        self.results_obj0 = self.results
        n_in = C.fresh("n_inputs", I)
        C.assume(n_in >= 0)
        self.input_uxns = SSeq(n_in, lambda i: SUxn(in_id(i), kp_empty), list, "input_uxns")
        self.return_uxns = SRet()
        self._maxc = C.fresh("dag_max_concurrency", I)
        self.max_concurrency = SInt(self._maxc)
        stale = C.fresh("stale_max_concurrency", I)
        C.assume(stale >= 1)  # validated by __post_init__ when it was saved; it is NOT the current limit
        self._max_concurrency = SInt(stale)
        self.graph_ids = SDiGraphEx(name="dag.graph_ids")
        self.graph_ids.owner = "dag"
        self.qualname = "dag"
        self._calls = []
        C.assume(self.invariant())

    def invariant(self):
        i, j = bv("i!d", I), bv("j!d", I)
        n = self.input_uxns.n
        return [
            z3.ForAll([x], z3.Implies(self.results.dom[x], self.xn_dom[x])),
            z3.ForAll([x], z3.Implies(self.graph_ids.N[x], self.xn_dom[x])),
            self._maxc >= 1,
            z3.ForAll([i], z3.Implies(z3.And(i >= 0, i < n), self.xn_dom[in_id(i)])),
            z3.ForAll([i, j], z3.Implies(z3.And(i >= 0, i < n, j >= 0, j < n, i != j), in_id(i) != in_id(j))),
        ]

    # ---- contract stubs of the methods (used when a *caller* is verified)
    def run_subgraph(self, subgraph, results, *args):
        star = args[0] if len(args) == 1 and isinstance(args[0], (SSeq, tuple)) else args
        rec = run_subgraph_contract(self, subgraph, results, star)
        if self._flavour == "async":
            return SAwaitable(lambda: rec)
        return rec

    run_subgraph._vc_star = True

    def alias_to_ids(self, alias):
        raise Unsupported("alias_to_ids stub")


class SRet(Sym):
    """DAG.return_uxns (opaque here: get_return_values has its own contract)"""


class SCfg(Sym):
    def __init__(self):
        self.RUN_DEBUG_NODES = SBool(C.fresh("RUN_DEBUG_NODES", B))


class SCfgRef(Sym):
    """`cfg` in a function's namespace: the per-path symbolic configuration"""

    @property
    def RUN_DEBUG_NODES(self):
        return C.ghost["cfg"].RUN_DEBUG_NODES


def owned_copy(g, name):
    n = SDiGraphEx(N=g.N, cN=g.cN, name=name, tables=dict(compound_priority=g.compound_priority.clone(), debug=g.debug.clone(), setup=g.setup.clone(), tag=g.tag.clone()))
    n.owner = "fresh"
    return n


def extend_graph_with_debug_nodes_stub(self_graph, original_graph, cfg):
    """summary contract of DiGraphEx.extend_graph_with_debug_nodes (contracts/digraph.py): a FRESH graph carrying
    self's tables; flag off: self's nodes minus debug nodes; flag on: superset of self's nodes inside original"""
    g = SDiGraphEx(name="exec_graph", tables=dict(compound_priority=self_graph.compound_priority, debug=self_graph.debug, setup=self_graph.setup, tag=self_graph.tag))
    g.owner = "fresh"
    flag = sym.tb(cfg.RUN_DEBUG_NODES)
    dbg = self_graph.debug.val
    C.assume(
        z3.Implies(z3.Not(flag), z3.ForAll([x], g.N[x] == z3.And(self_graph.N[x], z3.Not(dbg[x])))),
        z3.Implies(flag, z3.ForAll([x], z3.Implies(self_graph.N[x], g.N[x]))),
        z3.ForAll([x], z3.Implies(g.N[x], original_graph.N[x])),
    )
    g.derived_from = (self_graph, original_graph)
    return g


SDiGraphEx.extend_graph_with_debug_nodes = lambda self, original_graph, cfg: extend_graph_with_debug_nodes_stub(self, original_graph, cfg)


def extend_results_with_args_contract(results, input_uxns, args):
    """summary contract of extend_results_with_args (proved in contracts/values.py)"""
    if not isinstance(results, SMap):
        raise ContractBindError("extend_results_with_args: results is not a results map")
    nargs = args.n if isinstance(args, SSeq) else z3.IntVal(len(args))
    if C.fork(nargs > input_uxns.n, "too many arguments"):
        raise TypeError("The DAG takes a maximum of ... arguments")
    r = SMap.fresh("call_results", Id, Val, strict=True)
    i = bv("i!e", I)
    is_arg = lambda t: z3.Exists([i], z3.And(i >= 0, i < nargs, in_id(i) == t))  # noqa: E731
    argval = (lambda k: term(args.at(k), Val)) if isinstance(args, SSeq) else None
    C.assume(z3.ForAll([x], r.dom[x] == z3.Or(results.dom[x], is_arg(x))))
    C.assume(z3.ForAll([x], z3.Implies(z3.And(results.dom[x], z3.Not(is_arg(x))), r.val[x] == results.val[x])))
    if argval is not None:
        C.assume(z3.ForAll([i], z3.Implies(z3.And(i >= 0, i < nargs), r.val[in_id(i)] == argval(i))))
    r.derived = ("extend", results, args)
    return r


def execute_summary(dag, exec_nodes, results, max_concurrency, graph, where):
    """summary contract of async_execute / sync_execute as proved in contracts/scheduler.py (AsyncExecute.post)"""
    p = f"{where}.execute.pre"
    if exec_nodes is not dag.exec_nodes:
        raise ContractBindError(f"{where}: the scheduler is not given the DAG's node table")
    if not isinstance(graph, SDiGraphEx) or not isinstance(results, SMap):
        raise ContractBindError(f"{where}: unexpected scheduler arguments")
    C.check(sym.ti(max_concurrency) == dag._maxc, f"{p}.C04.limit_is_the_dags_max_concurrency", {"C04", "C08"}, "pre")
    C.check(z3.BoolVal(getattr(graph, "owner", None) == "fresh"), f"{p}.C15.graph_is_owned_by_this_call", {"C15", "C16", "C17"}, "pre")
    C.check(z3.ForAll([x], z3.Implies(graph.N[x], dag.xn_dom[x])), f"{p}.wf_exec.P1.graph_nodes_are_table_keys", {"C14"}, "pre")
    C.check(graph.compound_priority.val == dag.graph_ids.compound_priority.val, f"{p}.C06.priority_table_is_the_dags", {"C06", "C07"}, "pre")
    C.check(graph.debug.val == dag.graph_ids.debug.val, f"{p}.C13.debug_table_is_the_dags", {"C13"}, "pre")
    C.check(sym.ti(max_concurrency) >= 1, f"{p}.wf_exec.P4.limit_positive", {"C04", "C09"}, "pre")
    G_in = graph.N
    Sel = lambda t: z3.And(G_in[t], z3.Not(results.dom[t]))  # noqa: E731
    # the scheduler consumes the graph it is given
    graph._touch()
    graph.N = sym.K_false(Id)
    graph.cN = z3.IntVal(0)
    graph.owner = "consumed"
    if C.choose(f"{where}: a node fails"):
        bad = C.fresh("failed_node", Id)
        C.assume(Sel(bad))
        raise NodeFailure(bad, where)
    r = SMap.fresh("exec_results", Id, Val, strict=True)
    C.assume(z3.ForAll([x], r.dom[x] == z3.Or(results.dom[x], Sel(x))))
    C.assume(z3.ForAll([x], z3.Implies(results.dom[x], r.val[x] == results.val[x])))
    r.exec_of = dict(results_in=results, G_in=G_in, Sel=Sel, graph=graph)
    prof = SMap.fresh("profiles", Id, Val, strict=True)
    xns = SXnMap(dag.xn_dom, name="exec_nodes_copy")
    dag._calls.append(dict(kind="execute", results_in=results, G_in=G_in, out=r, where=where))
    return xns, r, prof


def run_subgraph_contract(dag, subgraph, results, args):
    """contract of DAG.run_subgraph / AsyncDAG.run_subgraph as seen by their callers (one contract, two bodies)"""
    start = dag.results if results is None else results
    rin = extend_results_with_args_contract(start, dag.input_uxns, args if isinstance(args, SSeq) else SSeq(z3.IntVal(len(args)), lambda i: args[0], tuple) if False else args)
    old_dom, old_val = dag.results.dom, dag.results.val
    xns, r, prof = execute_summary(dag, dag.exec_nodes, rin, dag.max_concurrency, subgraph, "run_subgraph")
    nd, nv = C.fresh("dom_dag.results", sym.SetSort(Id)), C.fresh("val_dag.results", z3.ArraySort(Id, Val))
    for _, f, _ in run_subgraph_post(old_dom, old_val, nd, nv, r):
        C.assume(f)
    dag.results._touch()
    dag.results.dom, dag.results.val, dag.results.cdom = nd, nv, None
    dag._calls.append(dict(kind="run_subgraph", subgraph=subgraph, results_arg=results, args=args, out=r, start=start))
    return xns, r, prof


def run_subgraph_post(old_dom, old_val, nd, nv, r):
    return [
        ("C11.results_only_grow", z3.ForAll([x], z3.Implies(old_dom[x], z3.And(nd[x], nv[x] == old_val[x]))), {"C11", "C15"}),
        ("C15.only_setup_results_are_kept", z3.ForAll([x], z3.Implies(z3.And(nd[x], z3.Not(old_dom[x])), z3.And(is_setup(x), r.dom[x], nv[x] == r.val[x]))), {"C15", "C11", "C16"}),
        ("C11.every_executed_setup_result_is_kept", z3.ForAll([x], z3.Implies(z3.And(is_setup(x), r.dom[x], z3.Not(old_dom[x])), nd[x])), {"C11"}),
    ]


# ====================================================================================================================
class RunSubgraph:
    module = "tawazi._dag.dag"

    def __init__(self, flavour):
        self.flavour = flavour
        self.qualname = ("DAG" if flavour == "sync" else "AsyncDAG") + ".run_subgraph"
        self.loops = {0: self.Loop()}

    def cases(self):
        return ["results=None", "results=given"]

    class Loop(LoopSpec):
        carried = ()

        def modifies(self, env):
            return [C.ghost["dag"].results]

        def inv(self, env, st):
            g = C.ghost
            dag, r = g["dag"], g["exec_out"]()
            if r is None:
                raise ContractBindError("run_subgraph: the loop is reached without a scheduler call")
            od, ov = g["old"]
            nd, nv = dag.results.dom, dag.results.val
            return [
                ("C11.results_only_grow", z3.ForAll([x], z3.Implies(od[x], z3.And(nd[x], nv[x] == ov[x]))), {"C11", "C15"}),
                ("C15.only_setup_results_are_kept", z3.ForAll([x], z3.Implies(z3.And(nd[x], z3.Not(od[x])), z3.And(is_setup(x), r.dom[x], nv[x] == r.val[x], st.seen[x]))), {"C15", "C11", "C16"}),
                ("C11.seen_setup_results_are_kept", z3.ForAll([x], z3.Implies(z3.And(st.seen[x], is_setup(x), r.dom[x], z3.Not(od[x])), nd[x])), {"C11"}),
                ("results_within_table", z3.ForAll([x], z3.Implies(nd[x], dag.xn_dom[x])), {"C14"}),
            ]

    def namespace(self):
        def ext(results, input_uxns, args=()):
            dag = C.ghost["dag"]
            if input_uxns is not dag.input_uxns:
                raise ContractBindError("extend_results_with_args: not the DAG's input_uxns")
            r = extend_results_with_args_contract(results, input_uxns, args)
            C.ghost["ext_calls"].append((results, args, r))
            return r

        ext._vc_star = True

        def sync_execute(**k):
            return self._exec(k, "sync_execute")

        def async_execute(**k):
            return SAwaitable(lambda: self._exec(k, "async_execute"))

        ns = {"extend_results_with_args": ext}
        if self.flavour == "sync":
            ns["sync_execute"] = sync_execute
            ns["async_execute"] = lambda **k: (_ for _ in ()).throw(ContractBindError("DAG.run_subgraph must drive the scheduler with sync_execute"))
        else:
            ns["async_execute"] = async_execute
            ns["sync_execute"] = lambda **k: (_ for _ in ()).throw(ContractBindError("AsyncDAG.run_subgraph must await async_execute (sync_execute would block the loop)"))
        return ns

    def _exec(self, k, where):
        if set(k) != {"exec_nodes", "results", "max_concurrency", "graph"}:
            raise ContractBindError(f"{where}: unexpected keyword arguments {sorted(k)}")
        dag = C.ghost["dag"]
        out = execute_summary(dag, k["exec_nodes"], k["results"], k["max_concurrency"], k["graph"], where)
        C.ghost["exec"].append(dict(k, out=out))
        return out

    def run(self, f, case):
        dag = SDag(self.flavour)
        sub = SDiGraphEx(name="subgraph", tables=dict(compound_priority=dag.graph_ids.compound_priority, debug=dag.graph_ids.debug, setup=dag.graph_ids.setup, tag=dag.graph_ids.tag))
        sub.owner = "fresh"
        C.assume(z3.ForAll([x], z3.Implies(sub.N[x], dag.xn_dom[x])))
        nargs = C.fresh("nargs", I)
        C.assume(nargs >= 0)
        args = SSeq(nargs, lambda i: SVal(z3.Function("argval", I, Val)(i)), tuple, "args")
        given = None
        if case == "results=given":
            given = SMap.fresh("given_results", Id, Val, strict=True)
            C.assume(z3.ForAll([x], z3.Implies(given.dom[x], dag.xn_dom[x])))
        old = (dag.results.dom, dag.results.val)
        C.ghost.update(dag=dag, ext_calls=[], exec=[], old=old, exec_out=lambda: C.ghost["exec"][-1]["out"][1] if C.ghost["exec"] else None)
        C.mutated = {}
        name = self.qualname
        try:
            r = f(dag, sub, given, args)
            if isinstance(r, SAwaitable):
                r = r.run()
        except NodeFailure:
            C.check(z3.And(dag.results.dom == old[0], dag.results.val == old[1]), f"{name}.exceptional.C15.dag_results_unchanged_by_a_failed_run", {"C15", "C11"}, "post")
            return "raises NodeFailure"
        except TypeError:
            C.check(nargs > dag.input_uxns.n, f"{name}.exceptional.TypeError_only_for_too_many_arguments", {"C14"}, "post")
            C.check(z3.And(dag.results.dom == old[0], dag.results.val == old[1]), f"{name}.exceptional.C15.dag_results_unchanged", {"C15"}, "post")
            return "raises TypeError"
        if len(C.ghost["exec"]) != 1 or len(C.ghost["ext_calls"]) != 1:
            raise ContractBindError(f"{name}: expected exactly one extend_results_with_args and one scheduler call")
        ex = C.ghost["exec"][0]
        start, a, rin = C.ghost["ext_calls"][0]
        want = dag.results_obj0 if given is None else given
        if start is not want:
            C.check(z3.BoolVal(False), f"{name}.post.C18.execution_starts_from_the_given_results", {"C18", "C15", "C11"}, "post")
        if a is not args:
            raise ContractBindError(f"{name}: the call's arguments are not forwarded")
        if ex["results"] is not rin or ex["graph"] is not sub:
            raise ContractBindError(f"{name}: scheduler not called with the extended results / the sub-graph")
        try:
            xns, res, prof = r
        except Exception:
            raise ContractBindError(f"{name}: does not return a 3-tuple")
        if res is not ex["out"][1]:
            raise ContractBindError(f"{name}: does not return the scheduler's results")
        for nm, goal, serves in run_subgraph_post(old[0], old[1], dag.results.dom, dag.results.val, res):
            C.check(goal, f"{name}.post.{nm}", serves, "post")
        for pid, p_ in C.mutated.items():
            if p_ is dag.results or p_ is sub or getattr(p_, "_serial", 0) > dag.results._serial + 50:
                continue
            if p_ is given:
                C.check(z3.BoolVal(False), f"{name}.frame.C15.given_results_not_mutated", {"C15"}, "frame")
        return "return"


# ====================================================================================================================
class DagCall:
    """DAG.__call__ (run branch) and AsyncDAG.__call__"""

    module = "tawazi._dag.dag"
    loops = {}

    def __init__(self, flavour):
        self.flavour = flavour
        self.qualname = ("DAG" if flavour == "sync" else "AsyncDAG") + ".__call__"

    def cases(self):
        return ["no-kwargs", "kwargs"]

    def namespace(self):
        from contracts.threads import SNodeModule

        def grv(return_uxns, results):
            C.ghost["grv"].append((return_uxns, results))
            return SVal(C.fresh("returned_value", Val))

        return {"node": SNodeModule(), "cfg": SCfgRef(), "get_return_values": grv}

    def run(self, f, case):
        from contracts.threads import thread_state
        from tawazi.errors import TawaziUsageError

        dag = SDag(self.flavour)
        ts = thread_state()
        C.ghost.update(dag=dag, grv=[], threads=ts, cfg=SCfg())
        nargs = C.fresh("nargs", I)
        C.assume(nargs >= 0)
        args = SSeq(nargs, lambda i: SVal(z3.Function("argval", I, Val)(i)), tuple, "args")
        kwargs = {} if case == "no-kwargs" else {"some_keyword": SVal(C.fresh("kw", Val))}
        old = (dag.results.dom, dag.results.val)
        name = self.qualname
        # this contract covers the RUN branch: the caller is not the thread describing a DAG
        C.assume(z3.Not(ts.me_is_builder))
        try:
            r = f(dag, args, kwargs=kwargs)
            if isinstance(r, SAwaitable):
                r = r.run()
        except TawaziUsageError:
            C.check(z3.BoolVal(case == "kwargs"), f"{name}.exceptional.usage_error_only_for_keyword_arguments", {"C14"}, "post")
            C.check(z3.And(dag.results.dom == old[0], dag.results.val == old[1]), f"{name}.exceptional.C15.nothing_changed", {"C15"}, "post")
            return "raises TawaziUsageError"
        except NodeFailure:
            return "raises NodeFailure"
        except TypeError:
            return "raises TypeError"
        C.check(z3.BoolVal(case == "no-kwargs"), f"{name}.post.keyword_arguments_are_refused_outside_a_description", {"C14", "C16"}, "post")
        calls = [c for c in dag._calls if c["kind"] == "run_subgraph"]
        if len(calls) != 1 or len(C.ghost["grv"]) != 1:
            raise ContractBindError(f"{name}: expected one run_subgraph and one get_return_values call")
        c = calls[0]
        g = c["subgraph"]
        if c["results_arg"] is not None:
            C.check(z3.BoolVal(False), f"{name}.post.C15.call_starts_from_the_dags_own_results", {"C15"}, "post")
        if c["args"] is not args:
            raise ContractBindError(f"{name}: arguments not forwarded")
        df = getattr(g, "derived_from", None)
        ok = df is not None and df[0] is dag.graph_ids and df[1] is dag.graph_ids
        C.check(z3.BoolVal(ok), f"{name}.post.C13.whole_graph_with_debug_rule", {"C13", "C03", "C12"}, "post")
        ru, rr = C.ghost["grv"][0]
        C.check(z3.BoolVal(ru is dag.return_uxns and rr is c["out"]), f"{name}.post.C01.returns_the_values_of_this_execution", {"C01", "C15", "C17"}, "post")
        return "return"


# ====================================================================================================================
class SExecution(Sym):
    """BaseDAGExecution instance (results is the real property: executed ? _results : dag.results)"""

    def __init__(self, dag, flavour):
        self.dag = dag
        self._flavour = flavour
        self.graph = SDiGraphEx(name="executor.graph", tables=dict(compound_priority=dag.graph_ids.compound_priority, debug=dag.graph_ids.debug, setup=dag.graph_ids.setup, tag=dag.graph_ids.tag))
        self.graph.owner = "executor"
        C.assume(z3.ForAll([x], z3.Implies(self.graph.N[x], dag.xn_dom[x])))
        self.executed = False
        self._results = None
        self.xn_dict = None
        self.profiles = None
        self.from_cache = SStr(C.fresh("from_cache_set", B), "from_cache")
        self.cache_in = SStr(C.fresh("cache_in_set", B), "cache_in")
        self.cache_deps_of = None
        self.cached_nodes = []
        self._log = []

    @property
    def results(self):
        return self._results if self.executed else self.dag.results

    @results.setter
    def results(self, v):
        self._results = v

    def _pre_call(self):
        self._log.append("pre")
        return pre_call_contract(self)

    def _post_call(self):
        self._log.append("post")
        self.executed = True
        return SVal(C.fresh("returned_value", Val))


class SStr(Sym):
    """a str attribute of which only the truthiness matters (cache_in / from_cache paths)"""

    def __init__(self, nonempty, name):
        self.nonempty, self.name = nonempty, name

    def __bool__(self):
        return C.fork(self.nonempty, f"{self.name} set")


fs_dom = z3.Function("file_dom", Id, B)  # contents of the cache file read by from_cache (ghost file system)
fs_val = z3.Function("file_val", Id, Val)


def pre_call_post(ex, pre):
    d = ex.dag
    use = ex.from_cache.nonempty
    return [
        ("C18.starts_from_the_cached_results", z3.ForAll([x], z3.Implies(z3.And(use, fs_dom(x)), z3.And(pre.dom[x], pre.val[x] == fs_val(x)))), {"C18"}),
        ("C15.otherwise_from_the_dags_results", z3.ForAll([x], z3.Implies(z3.Not(z3.And(use, fs_dom(x))), z3.And(pre.dom[x] == d.results.dom[x], z3.Implies(d.results.dom[x], pre.val[x] == d.results.val[x])))), {"C15", "C18", "C11"}),
    ]


def pre_call_contract(ex):
    from tawazi.errors import TawaziUsageError

    if ex.executed:
        raise TawaziUsageError("DAGExecution object has already been executed.")
    pre = SMap.fresh("pre_results", Id, Val, strict=True)
    for _, f, _ in pre_call_post(ex, pre):
        C.assume(f)
    ex._pre_results = pre
    return None


class ExecutionCall:
    module = "tawazi._dag.dag"
    loops = {}

    def __init__(self, flavour):
        self.flavour = flavour
        self.qualname = ("DAGExecution" if flavour == "sync" else "AsyncDAGExecution") + ".__call__"

    def namespace(self):
        def deepcopy(o):
            if isinstance(o, SDiGraphEx):
                return owned_copy(o, "graph_copy")
            raise Unsupported(f"deepcopy of {type(o).__name__}")

        return {"deepcopy": deepcopy, "copy": deepcopy}

    def run(self, f, case):
        dag = SDag(self.flavour)
        ex = SExecution(dag, self.flavour)
        N0, c0 = ex.graph.N, ex.graph.cN
        nargs = C.fresh("nargs", I)
        C.assume(nargs >= 0)
        args = SSeq(nargs, lambda i: SVal(z3.Function("argval", I, Val)(i)), tuple, "args")
        name = self.qualname
        try:
            r = f(ex, args, kwargs={})
            if isinstance(r, SAwaitable):
                r = r.run()
        except (NodeFailure, TypeError) as e:
            # Inv_X: a failed run leaves the executor as it was: not executed and its selection graph intact
            C.check(z3.BoolVal(ex.executed is False), f"{name}.exceptional.C15.not_marked_executed", {"C15"}, "post")
            C.check(z3.And(ex.graph.N == N0, ex.graph.cN == c0), f"{name}.exceptional.C15.selection_graph_intact_after_a_failed_run", {"C15"}, "post")
            return f"raises {type(e).__name__}"
        C.check(z3.BoolVal(ex._log == ["pre", "post"]), f"{name}.post.pre_call_then_post_call", {"C15", "C18"}, "post")
        calls = [c for c in dag._calls if c["kind"] == "run_subgraph"]
        if len(calls) != 1:
            raise ContractBindError(f"{name}: expected one run_subgraph call")
        c = calls[0]
        C.check(z3.BoolVal(c["results_arg"] is getattr(ex, "_pre_results", None)), f"{name}.post.C18.run_starts_from_the_results_prepared_by_pre_call", {"C18", "C15"}, "post")
        C.check(z3.And(c["out"].exec_of["G_in"] == N0), f"{name}.post.C12.runs_the_executors_selection", {"C12", "C03"}, "post")
        C.check(z3.And(ex.graph.N == N0, ex.graph.cN == c0), f"{name}.post.C15.selection_graph_not_consumed", {"C15"}, "post")
        C.check(z3.BoolVal(ex._results is c["out"]), f"{name}.post.results_of_this_execution_are_stored", {"C12", "C18"}, "post")
        return "return"


class PreCall:
    module = "tawazi._dag.dag"
    qualname = "BaseDAGExecution._pre_call"

    def __init__(self):
        self.loops = {0: self.Loop()}

    def cases(self):
        return ["fresh", "already-executed"]

    class Loop(LoopSpec):
        carried = ()

        def modifies(self, env):
            ex = C.ghost["ex"]
            pr = getattr(ex, "_pre_results", None)
            if not isinstance(pr, SMap) or pr is ex.dag.results:
                raise ContractBindError("_pre_call: the cached results must be merged into a private copy of the results")
            return [pr]

        def inv(self, env, st):
            ex = C.ghost["ex"]
            d, pre = ex.dag, ex._pre_results
            return [
                ("seen_cached_results_are_in", z3.ForAll([x], z3.Implies(st.seen[x], z3.And(pre.dom[x], pre.val[x] == fs_val(x)))), {"C18"}),
                ("others_as_in_the_dag", z3.ForAll([x], z3.Implies(z3.Not(st.seen[x]), z3.And(pre.dom[x] == d.results.dom[x], z3.Implies(d.results.dom[x], pre.val[x] == d.results.val[x])))), {"C15", "C18", "C11"}),
            ]

    def namespace(self):
        class _File(Sym):
            def __enter__(self):
                return self

            def __exit__(self, *a):
                return False

        def open_(path, mode="r"):
            ex = C.ghost["ex"]
            if path is not ex.from_cache or "r" not in mode:
                raise ContractBindError("_pre_call opens something else than from_cache for reading")
            return _File()

        class _Pickle:
            @staticmethod
            def load(f):
                m = SMap(Id, Val, z3.Lambda([x], fs_dom(x)), z3.Lambda([x], fs_val(x)), name="cached_results")
                return m

        def copy(o):
            if isinstance(o, SMap):
                return o.clone()
            raise Unsupported("copy")

        return {"open": open_, "pickle": _Pickle, "copy": copy}

    def run(self, f, case):
        from tawazi.errors import TawaziUsageError

        dag = SDag("sync")
        ex = SExecution(dag, "sync")
        ex.__class__ = type("SExecutionRaw", (SExecution,), {"_pre_call": None})
        C.ghost.update(ex=ex)
        old = (dag.results.dom, dag.results.val)
        if case == "already-executed":
            ex.executed = True
            ex._results = SMap.fresh("old_results", Id, Val, strict=True)
        try:
            f(ex)
        except TawaziUsageError:
            C.check(z3.BoolVal(case == "already-executed"), "_pre_call.exceptional.C15.refuses_only_an_executed_executor", {"C15"}, "post")
            return "raises TawaziUsageError"
        C.check(z3.BoolVal(case == "fresh"), "_pre_call.post.C15.executed_executor_is_refused", {"C15"}, "post")
        pre = getattr(ex, "_pre_results", None)
        if not isinstance(pre, SMap):
            raise ContractBindError("_pre_call does not prepare _pre_results")
        for nm, goal, serves in pre_call_post(ex, pre):
            C.check(goal, f"_pre_call.post.{nm}", serves, "post")
        C.check(z3.And(dag.results.dom == old[0], dag.results.val == old[1]), "_pre_call.frame.C15.dag_results_untouched", {"C15", "C11"}, "frame")
        return "return"
