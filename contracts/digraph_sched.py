"""Contracts of the DiGraphEx methods the scheduler relies on: root_nodes, remove_root_node."""
import z3

from pyvc.core import C
from pyvc.lib import E, SGraph
from pyvc.sym import Id, SId, SSet, as_set, bv


def released(N0, r, s):
    """s becomes a root when r is removed from the node set N0: r is its only predecessor in N0"""
    u = bv("u!rel", Id)
    return z3.And(N0[s], E(r, s), z3.ForAll([u], z3.Implies(z3.And(N0[u], E(u, s)), u == r)))


class RemoveRootNode:
    module = "tawazi._dag.digraph"
    qualname = "DiGraphEx.remove_root_node"
    loops = {}

    @staticmethod
    def ensures(N0, c0, r, N1, c1, res):
        s = bv("s!e", Id)
        return [
            ("removed", N1 == z3.Store(N0, r, False), {"C02", "C03", "C09"}),
            ("card", c1 == c0 - 1, {"C09"}),
            ("sound", z3.ForAll([s], z3.Implies(res.mem(s), released(N0, r, s))), {"C02", "C03"}),
            ("complete", z3.ForAll([s], z3.Implies(released(N0, r, s), res.mem(s))), {"C06", "C08", "C09"}),
        ]

    def run(self, f, case):
        g = SGraph()
        r = SId(C.fresh("r", Id))
        C.assume(g.N[r.t])  # requires: the node is in the graph
        N0, c0 = g.N, g.cN
        tables0 = (g.compound_priority.val, g.debug.val, g.setup.val, g.tag.val)
        res = as_set(f(g, r), Id)
        for name, goal, serves in self.ensures(N0, c0, r.t, g.N, g.cN, res):
            C.check(goal, f"remove_root_node.post.{name}", serves, kind="post")
        C.check(z3.And(*[a == b for a, b in zip(tables0, (g.compound_priority.val, g.debug.val, g.setup.val, g.tag.val))]),
                "remove_root_node.frame.tables_unchanged", {"C06", "C13"}, kind="frame")
        return "return"

    @staticmethod
    def stub(g, r):
        rt = r.t
        C.check(g.N[rt], "remove_root_node.pre.node_in_graph", {"C14", "C03"}, kind="pre")
        C.assume(g.N[rt])
        N0, c0 = g.N, g.cN
        g._touch()
        g.N = z3.Store(N0, rt, False)
        g.cN = z3.simplify(c0 - 1)
        res = SSet.fresh("released", Id)
        for name, goal, _ in RemoveRootNode.ensures(N0, c0, rt, g.N, g.cN, res):
            C.assume(goal)
        return res


class RootNodes:
    module = "tawazi._dag.digraph"
    qualname = "DiGraphEx.root_nodes"
    loops = {}

    @staticmethod
    def ensures(g, res):
        s = bv("s!e", Id)
        return [
            ("sound", z3.ForAll([s], z3.Implies(res.mem(s), g.is_root(s))), {"C02", "C03"}),
            ("complete", z3.ForAll([s], z3.Implies(g.is_root(s), res.mem(s))), {"C06", "C08", "C09"}),
        ]

    def run(self, f, case):
        g = SGraph()
        N0 = g.N
        res = as_set(f(g), Id)
        for name, goal, serves in self.ensures(g, res):
            C.check(goal, f"root_nodes.post.{name}", serves, kind="post")
        C.check(g.N == N0, "root_nodes.frame.graph_unchanged", {"C15"}, kind="frame")
        return "return"

    @staticmethod
    def stub(g):
        res = SSet.fresh("roots", Id)
        for name, goal, _ in RootNodes.ensures(g, res):
            C.assume(goal)
        return res


class SDiGraphEx(SGraph):
    """SGraph + contract stubs of tawazi's own DiGraphEx methods (contract layer, DESIGN 2.3)"""

    @property
    def root_nodes(self):
        return RootNodes.stub(self)

    def remove_root_node(self, r):
        return RemoveRootNode.stub(self, r)
