"""Contracts of BaseDAG.compose (tawazi/_dag/dag.py) -- property C19.

Two units: the nested recursive closure `_add_missing_deps` (what the outputs need, stopping at nodes already in the
set), and `compose` itself, in which that closure is replaced by its contract stub (modular reasoning) and the four
nested rewiring loops carry invariants saying exactly which references have been rewritten so far.

Model: node ids are an uninterpreted sort; the id of the argument holder that replaces input j is `new_at(j)`
(make_axn_id: ASSUMED fresh, i.e. not an id of the original DAG -- string-level, bounded stand-in only).  The node
table of the composed DAG is a table of mutable records (the deep copies), whose reference arrays are updated in
place by the rewiring loops; the original table is read-only functions of the node id, so a write into a node that
is shared with the original would be a write outside the frame."""
import z3

from contracts.digraph_sched import SDiGraphEx
from contracts.model import SUxn, act_id, act_key, has_act
from contracts.nodebuild import SUxnCtor, uxn_terms
from contracts.nodeexec import SKeyStr
from pyvc import lib, sym
from pyvc.core import C, ContractBindError, Unsupported
from pyvc.engine import LoopSpec
from pyvc.lib import E, Reach, rank, reach_theory
from pyvc.sym import B, I, Id, Key, KPath, SBool, SId, SInt, SIter, SList, SMap, SSeq, SSet, STerm, SVal, Sym, Val, bv, kp_empty, term

x, y, p_, q_ = bv("x!c", Id), bv("y!c", Id), bv("p!c", Id), bv("q!c", Id)
is_dag_input = z3.Function("is_dag_input_without_default", Id, B)


class MissingInput(ValueError):
    pass


def closure_clauses(N, A, X, cand):
    """what _add_missing_deps(cand, xn_ids) guarantees; A: the set at entry, X: the set afterwards"""
    return [
        ("the_set_only_grows", z3.ForAll([q_], z3.Implies(A[q_], X[q_])), {"C19"}),
        ("every_predecessor_of_the_candidate_is_in_the_set", z3.ForAll([p_], z3.Implies(z3.And(N[p_], E(p_, cand)), X[p_])), {"C19"}),
        ("every_added_node_has_all_its_predecessors_in_the_set", z3.ForAll([q_, p_], z3.Implies(z3.And(X[q_], z3.Not(A[q_]), N[p_], E(p_, q_)), X[p_])), {"C19"}),
        ("only_ancestors_of_the_candidate_are_added", z3.ForAll([q_], z3.Implies(z3.And(X[q_], z3.Not(A[q_])), z3.And(N[q_], Reach(N, q_, cand)))), {"C19"}),
        ("no_default_less_dag_input_is_added", z3.ForAll([q_], z3.Implies(z3.And(X[q_], z3.Not(A[q_])), z3.Not(is_dag_input(q_)))), {"C19"}),
    ]


def add_missing_deps_stub(N, cand_t, xs, where):
    """summary contract of compose._add_missing_deps, used for its recursive call and by compose"""
    if not isinstance(xs, SSet):
        raise ContractBindError("_add_missing_deps: the set of needed nodes is not a set")
    C.check(N[cand_t], f"{where}.pre.candidate_is_a_node_of_the_graph", {"C19", "C14"}, "pre")
    A = xs.a
    if C.choose("a default-less DAG input is needed but not declared as input"):
        raise MissingInput("ExecNode ... are not declared as inputs")
    xs.havoc()
    C.mutated[id(xs)] = xs
    for _, f, _ in closure_clauses(N, A, xs.a, cand_t):
        C.assume(f)


class AddMissingDeps:
    module = "tawazi._dag.dag"
    qualname = "BaseDAG.compose._add_missing_deps"

    def __init__(self):
        self.loops = {0: self.Loop()}

    class Loop(LoopSpec):
        carried = ()

        def modifies(self, env):
            return [env["xn_ids"]]

        def inv(self, env, st):
            N, A, cand = C.ghost["N"], C.ghost["A"], C.ghost["cand"]
            X = env["xn_ids"].a
            cl = closure_clauses(N, A, X, cand)
            # "every predecessor" holds for the predecessors already visited
            cl[1] = ("every_visited_predecessor_is_in_the_set", z3.ForAll([p_], z3.Implies(st.seen[p_], X[p_])), {"C19"})
            return cl

    def run(self, f, case):
        g = SDiGraphEx(name="self.graph_ids")
        N = g.N
        reach_theory().register(N)
        C.assume(lib.acyclic_axiom())
        cand = C.fresh("candidate", Id)
        C.assume(N[cand])
        xs = SSet.fresh("xn_ids", Id)
        A = xs.a
        C.ghost.update(N=N, A=A, cand=cand)

        class _Self(Sym):
            graph_ids = g

        def rec(c_, s_):
            ct = term(c_)
            C.check(rank(ct) < rank(cand), "_add_missing_deps.recursion.C09.descends_along_an_edge_of_an_acyclic_graph", {"C19", "C09"}, "variant")
            return add_missing_deps_stub(N, ct, s_, "_add_missing_deps.recursion")

        def raise_missing(i_):
            C.check(z3.And(is_dag_input(term(i_)), z3.Not(A[term(i_)])), "_add_missing_deps.exceptional.C19.refused_only_for_a_default_less_dag_input_that_is_not_an_input", {"C19"}, "post")
            raise MissingInput("not declared as inputs")

        dag_inputs = SList(SSet.define("dag_inputs_ids", Id, lambda t_: is_dag_input(t_)))
        f.__globals__.update({"self": _Self(), "_add_missing_deps": rec, "_raise_missing_input": raise_missing, "dag_inputs_ids": dag_inputs})
        try:
            f(SId(cand), xs)
        except MissingInput:
            return "raises ValueError (missing input)"
        for nm, goal, serves in closure_clauses(N, A, xs.a, cand):
            C.check(goal, f"_add_missing_deps.post.C19.{nm}", serves, "post")
        return "return"


# ====================================================================================================================
# compose itself
# ====================================================================================================================
n_nargs = z3.Function("orig_nargs", Id, I)
n_aid = z3.Function("orig_arg_id", Id, I, Id)
n_akey = z3.Function("orig_arg_key", Id, I, KPath)
n_kwh = z3.Function("orig_kw_has", Id, Key, B)
n_kwid = z3.Function("orig_kw_id", Id, Key, Id)
n_kwkey = z3.Function("orig_kw_key", Id, Key, KPath)
in_at = z3.Function("input_node", I, Id)  # the node the j-th input alias resolves to
out_at = z3.Function("output_node", I, Id)
in_pos = z3.Function("input_position", Id, I)
new_of = z3.Function("make_axn_id_of_input", Id, Id)  # id of the argument holder that replaces an input node
new_inv = z3.Function("input_of_holder", Id, Id)
dag_in = z3.Function("original_dag_input", I, Id)


class Sp:
    """specification of the rewiring: M(level, id) = the id a reference to `id` must have once `level` inputs are rewired"""

    def __init__(self, n_in, D0):
        self.n_in, self.D0 = n_in, D0

    def is_in(self, t_, upto):
        j = in_pos(t_)
        return z3.And(j >= 0, j < upto, in_at(j) == t_)

    def M(self, level, t_):
        return z3.If(self.is_in(t_, level), new_of(t_), t_)

    def is_new(self, t_, upto):
        o = new_inv(t_)
        return z3.And(new_of(o) == t_, self.is_in(o, upto))


class SCopyTable(Sym):
    """xn_dict: StrictDict[Id, deep copy of a node | ArgExecNode]; the copies' reference lists are mutable"""

    FIELDS = ("dom", "kind", "nargs", "aid", "akey", "kwh", "kwid", "kwkey", "acth", "actid", "actkey")
    SORTS = dict(dom=sym.SetSort(Id), kind=z3.ArraySort(Id, I), nargs=z3.ArraySort(Id, I), aid=z3.ArraySort(Id, z3.ArraySort(I, Id)), akey=z3.ArraySort(Id, z3.ArraySort(I, KPath)),
                 kwh=z3.ArraySort(Id, z3.ArraySort(Key, B)), kwid=z3.ArraySort(Id, z3.ArraySort(Key, Id)), kwkey=z3.ArraySort(Id, z3.ArraySort(Key, KPath)),
                 acth=z3.ArraySort(Id, B), actid=z3.ArraySort(Id, Id), actkey=z3.ArraySort(Id, KPath))

    def __init__(self):
        self._serial = C.next_serial()
        self.havoc()

    def havoc(self):
        for f_ in self.FIELDS:
            setattr(self, f_, C.fresh("T_" + f_, self.SORTS[f_]))

    def _touch(self):
        C.mutated[id(self)] = self

    def _vc_contains(self, k):
        return SBool(self.dom[term(k)])

    def __setitem__(self, k, v):
        kt = term(k)
        if not isinstance(v, SArgHolder):
            raise Unsupported("only argument holders are added to the table of copies")
        if C.fork(self.dom[kt], "xn_dict: id already used"):
            raise KeyError("key already exists")
        self._touch()
        self.dom = z3.Store(self.dom, kt, True)
        self.kind = z3.Store(self.kind, kt, 3)
        self.nargs = z3.Store(self.nargs, kt, 0)
        self.kwh = z3.Store(self.kwh, kt, z3.K(Key, False))
        self.acth = z3.Store(self.acth, kt, False)

    def values(self):
        dom = self.dom
        return SIter(Id, lambda q: dom[q], lambda q: SCopyNode(self, q))


class SArgHolder(Sym):
    def __init__(self, i):
        self._i = i


class SOrigNode(Sym):
    """a node of the ORIGINAL DAG: read-only"""

    def __init__(self, xt):
        self._x = xt

    def _vc_subst(self, a, b):
        return SOrigNode(z3.substitute(self._x, (a, b)))


class SCopyOf(Sym):
    """deepcopy(original node x)"""

    def __init__(self, xt):
        self._x = xt

    def _vc_subst(self, a, b):
        return SCopyOf(z3.substitute(self._x, (a, b)))


class SCopyNode(Sym):
    """a node of xn_dict (a copy): its reference lists live in the table"""

    def __init__(self, T, xt):
        object.__setattr__(self, "T", T)
        object.__setattr__(self, "_x", xt)

    @property
    def args(self):
        return SArgsView(self.T, self._x)

    @property
    def kwargs(self):
        return SKwView(self.T, self._x)

    @property
    def active(self):
        T, xt = self.T, self._x
        return sym.SOpt(T.acth[xt], SUxn(T.actid[xt], T.actkey[xt]), "xn.active")

    def _vc_setattr(self, name, value):
        if name != "active":
            raise Unsupported(f"object.__setattr__(xn, {name!r}, ...)")
        T, xt = self.T, self._x
        ai, ak = uxn_terms(value)
        T._touch()
        T.actid = z3.Store(T.actid, xt, ai)
        T.actkey = z3.Store(T.actkey, xt, ak)

    def _vc_subst(self, a, b):
        return SCopyNode(self.T, z3.substitute(self._x, (a, b)))


class SArgsView(Sym):
    def __init__(self, T, xt):
        self.T, self.xt = T, xt

    def _vc_enumerate(self):
        T, xt = self.T, self.xt
        n = T.nargs[xt]
        it = SIter(I, lambda i: z3.And(i >= 0, i < n), lambda i: (SInt(i), SUxn(T.aid[xt][i], T.akey[xt][i])), count=n)
        it._indexed = (n, list)
        return it

    def __setitem__(self, i, v):
        T, xt = self.T, self.xt
        it = sym.ti(i)
        C.check(z3.And(it >= 0, it < T.nargs[xt]), "compose.no_internal_error.args_index_in_range", {"C14", "C19"}, "internal")
        ai, ak = uxn_terms(v)
        T._touch()
        T.aid = z3.Store(T.aid, xt, z3.Store(T.aid[xt], it, ai))
        T.akey = z3.Store(T.akey, xt, z3.Store(T.akey[xt], it, ak))


class SKwView(Sym):
    def __init__(self, T, xt):
        self.T, self.xt = T, xt

    def items(self):
        T, xt = self.T, self.xt
        return SIter(Key, lambda k: T.kwh[xt][k], lambda k: (SKeyStr(k), SUxn(T.kwid[xt][k], T.kwkey[xt][k])))

    def __setitem__(self, k, v):
        T, xt = self.T, self.xt
        kt = term(k)
        C.check(T.kwh[xt][kt], "compose.no_internal_error.only_existing_keywords_are_rewritten", {"C14", "C19"}, "internal")
        ai, ak = uxn_terms(v)
        T._touch()
        T.kwid = z3.Store(T.kwid, xt, z3.Store(T.kwid[xt], kt, ai))
        T.kwkey = z3.Store(T.kwkey, xt, z3.Store(T.kwkey[xt], kt, ak))


class SObjectShim:
    """`object` in compose's namespace: object.__setattr__(xn, name, value) on a frozen dataclass copy"""

    @staticmethod
    def __setattr__(o, name, value):  # noqa: PLW3201
        if hasattr(o, "_vc_setattr"):
            return o._vc_setattr(name, value)
        raise ContractBindError("object.__setattr__ on something that is not a copied node (a write outside the frame)")


def table_clauses(T, sp, mdom, Largs, Lkw, Lact):
    """the state of the table of copies: levels say how many inputs have been rewired in each reference"""
    t_, i_, k_ = bv("t!tc", Id), bv("i!tc", I), bv("k!tc", Key)
    D0 = sp.D0
    return [
        ("keys_are_the_copied_nodes_and_the_holders_of_the_rewired_inputs", z3.ForAll([t_], T.dom[t_] == z3.Or(D0[t_], sp.is_new(t_, mdom))), {"C19"}),
        ("copies_keep_their_shape", z3.ForAll([t_], z3.Implies(D0[t_], z3.And(T.kind[t_] == 1, T.nargs[t_] == n_nargs(t_), T.acth[t_] == has_act(t_)))), {"C19"}),
        ("holders_have_no_references", z3.ForAll([t_], z3.Implies(z3.And(sp.is_new(t_, mdom), z3.Not(D0[t_])), z3.And(T.kind[t_] == 3, T.nargs[t_] == 0, z3.Not(T.acth[t_]), z3.ForAll([k_], z3.Not(T.kwh[t_][k_]))))), {"C19"}),
        ("positional_references", z3.ForAll([t_, i_], z3.Implies(z3.And(D0[t_], i_ >= 0, i_ < n_nargs(t_)), z3.And(T.aid[t_][i_] == sp.M(Largs(t_, i_), n_aid(t_, i_)), T.akey[t_][i_] == n_akey(t_, i_)))), {"C19"}),
        ("keyword_references", z3.ForAll([t_, k_], z3.Implies(D0[t_], z3.And(T.kwh[t_][k_] == n_kwh(t_, k_), z3.Implies(n_kwh(t_, k_), z3.And(T.kwid[t_][k_] == sp.M(Lkw(t_, k_), n_kwid(t_, k_)), T.kwkey[t_][k_] == n_kwkey(t_, k_)))))), {"C19"}),
        ("activation_references", z3.ForAll([t_], z3.Implies(z3.And(D0[t_], has_act(t_)), z3.And(T.actid[t_] == sp.M(Lact(t_), act_id(t_)), T.actkey[t_] == act_key(t_)))), {"C19", "C10"}),
    ]


def _g():
    return C.ghost["T"], C.ghost["sp"]


def _m():
    return C.loop_states[2].nseen  # number of inputs completely rewired (loop C1 is ordered)


class LoopInputsCheck(LoopSpec):
    """for in_id in in_ids: an input that is an ancestor of an input is refused"""

    carried = ()
    local_ok = ("descendants",)

    def inv(self, env, st):
        anc = env["in_ids_ancestors"]
        j = bv("j!la", I)
        return [("no_checked_input_is_an_ancestor_of_an_input", z3.ForAll([j], z3.Implies(z3.And(j >= 0, j < st.nseen), z3.Not(anc.mem(in_at(j))))), {"C19"})]


class LoopOutputs(LoopSpec):
    """for o_id in out_ids: _add_missing_deps(o_id, set_xn_ids)"""

    carried = ()

    def modifies(self, env):
        return [env["set_xn_ids"]]

    def inv(self, env, st):
        N, A0 = C.ghost["N"], C.ghost["A0"]
        X = env["set_xn_ids"].a
        j = bv("j!lo", I)
        n_out = C.ghost["n_out"]
        return [
            ("inputs_and_outputs_stay_in_the_set", z3.ForAll([q_], z3.Implies(A0[q_], X[q_])), {"C19"}),
            ("predecessors_of_processed_outputs_are_in_the_set", z3.ForAll([j, p_], z3.Implies(z3.And(j >= 0, j < st.nseen, N[p_], E(p_, out_at(j))), X[p_])), {"C19"}),
            ("added_nodes_have_all_their_predecessors_in_the_set", z3.ForAll([q_, p_], z3.Implies(z3.And(X[q_], z3.Not(A0[q_]), N[p_], E(p_, q_)), X[p_])), {"C19"}),
            ("added_nodes_are_needed_by_an_output", z3.ForAll([q_], z3.Implies(z3.And(X[q_], z3.Not(A0[q_])), z3.And(N[q_], z3.Exists([j], z3.And(j >= 0, j < n_out, Reach(N, q_, out_at(j))))))), {"C19"}),
            ("no_default_less_dag_input_is_added", z3.ForAll([q_], z3.Implies(z3.And(X[q_], z3.Not(A0[q_])), z3.Not(is_dag_input(q_)))), {"C19"}),
        ]


class LoopC1(LoopSpec):
    """for old_id, new_id in zip(in_ids, new_in_ids)"""

    carried = ()
    local_ok = ("xn", "i", "xn_dep", "xn_dep_name")

    def modifies(self, env):
        return [C.ghost["T"]]

    def inv(self, env, st):
        T, sp = _g()
        m = st.nseen
        L = lambda *a: m  # noqa: E731
        return table_clauses(T, sp, m, L, L, L)


class LoopC2(LoopSpec):
    """for xn in xn_dict.values()"""

    carried = ()
    local_ok = ("i", "xn_dep", "xn_dep_name")

    def modifies(self, env):
        return [C.ghost["T"]]

    def inv(self, env, st):
        T, sp = _g()
        m = _m()
        S = st.seen
        L = lambda t_, *a: z3.If(S[t_], m + 1, m)  # noqa: E731
        return table_clauses(T, sp, m + 1, L, L, L)


class LoopC3(LoopSpec):
    """for i, xn_dep in enumerate(xn.args)"""

    carried = ()

    def modifies(self, env):
        return [C.ghost["T"]]

    def inv(self, env, st):
        T, sp = _g()
        m = _m()
        S = C.loop_states[3].seen
        cur = env["xn"]._x
        La = lambda t_, i_: z3.If(z3.Or(S[t_], z3.And(t_ == cur, i_ < st.nseen)), m + 1, m)  # noqa: E731
        Lo = lambda t_, *a: z3.If(S[t_], m + 1, m)  # noqa: E731
        return table_clauses(T, sp, m + 1, La, Lo, Lo)


class LoopC4(LoopSpec):
    """for xn_dep_name, xn_dep in xn.kwargs.items()"""

    carried = ()

    def modifies(self, env):
        return [C.ghost["T"]]

    def inv(self, env, st):
        T, sp = _g()
        m = _m()
        S = C.loop_states[3].seen
        cur = env["xn"]._x
        La = lambda t_, i_: z3.If(z3.Or(S[t_], t_ == cur), m + 1, m)  # noqa: E731
        Lk = lambda t_, k_: z3.If(z3.Or(S[t_], z3.And(t_ == cur, st.seen[k_])), m + 1, m)  # noqa: E731
        Lc = lambda t_: z3.If(S[t_], m + 1, m)  # noqa: E731
        return table_clauses(T, sp, m + 1, La, Lk, Lc)


class Compose:
    module = "tawazi._dag.dag"
    qualname = "BaseDAG.compose"
    nested_stubs = ("_add_missing_deps",)

    def __init__(self):
        self.loops = {0: LoopInputsCheck(), 1: LoopOutputs(), 2: LoopC1(), 3: LoopC2(), 4: LoopC3(), 5: LoopC4()}

    def cases(self):
        return ["outputs=sequence", "outputs=single"]

    def run(self, f, case):
        from contracts.digraph import stub_ancestors_of_iter

        g = SDiGraphEx(name="self.graph_ids")
        N = g.N
        reach_theory().register(N)
        C.assume(lib.acyclic_axiom())
        n_in, n_out = C.fresh("n_inputs", I), C.fresh("n_outputs", I)
        C.assume(n_in >= 0, n_out >= 0)
        if case == "outputs=single":
            C.assume(n_out == 1)
        i_, j_, k_ = bv("i!cp", I), bv("j!cp", I), bv("k!cp", Key)
        # Inv_DAG of the original (from_exec_nodes.post): references of a node are nodes of the graph and edges into it
        C.assume(z3.ForAll([x, i_], z3.Implies(z3.And(N[x], i_ >= 0, i_ < n_nargs(x)), z3.And(N[n_aid(x, i_)], E(n_aid(x, i_), x)))))
        C.assume(z3.ForAll([x, k_], z3.Implies(z3.And(N[x], n_kwh(x, k_)), z3.And(N[n_kwid(x, k_)], E(n_kwid(x, k_), x)))))
        C.assume(z3.ForAll([x], z3.Implies(z3.And(N[x], has_act(x)), z3.And(N[act_id(x)], E(act_id(x), x)))))
        # the aliases resolve to distinct nodes of the DAG (a repeated input makes xn_dict[new_id] raise KeyError: not modelled)
        C.assume(z3.ForAll([j_], z3.Implies(z3.And(j_ >= 0, j_ < n_in), z3.And(N[in_at(j_)], in_pos(in_at(j_)) == j_))))
        C.assume(z3.ForAll([j_], z3.Implies(z3.And(j_ >= 0, j_ < n_out), N[out_at(j_)])))
        # ASSUMED string-level fact: the holder ids made by make_axn_id are fresh (no node of the original has such an id)
        # (stated for the input nodes only: an injective function into the complement of N over ALL ids has no finite model)
        C.assume(z3.ForAll([j_], z3.Implies(z3.And(j_ >= 0, j_ < n_in), z3.And(z3.Not(N[new_of(in_at(j_))]), new_inv(new_of(in_at(j_))) == in_at(j_)))))
        n_dag_in = C.fresh("n_dag_inputs", I)
        C.assume(n_dag_in >= 0)
        results0 = SMap.fresh("self.results", Id, Val)
        C.assume(z3.ForAll([x], z3.Implies(results0.dom[x], N[x])))
        r0 = (results0.dom, results0.val)
        log = dict(ctor=[])

        class SAlias(Sym):
            def __init__(self, kind, j):
                self.kind, self.j = kind, j

            def _vc_isinstance(self, cls):
                return False  # neither a str nor an ExecNode reference here: resolved through _get_single_xn_by_alias

            def _vc_subst(self, a, b):
                return SAlias(self.kind, z3.substitute(self.j, (a, b)))

        class SNodeRef(Sym):
            def __init__(self, t_):
                self.id = SId(t_)

        class SOrigTable(Sym):
            def __getitem__(self, k):
                return SOrigNode(term(k))

        class _Self(Sym):
            graph_ids = g
            results = results0
            exec_nodes = SOrigTable()
            input_uxns = SSeq(n_dag_in, lambda q: SUxn(dag_in(q), kp_empty), list, "self.input_uxns")

            def _get_single_xn_by_alias(self, a):
                if not isinstance(a, SAlias):
                    raise ContractBindError("an alias is expected")
                if not C.binder and C.choose("the alias is unknown or ambiguous"):
                    raise ValueError("alias is not unique / not found")
                return SNodeRef(in_at(a.j) if a.kind == "in" else out_at(a.j))

            def _vc_isinstance(self, cls):
                classes = cls if isinstance(cls, tuple) else (cls,)
                return any(getattr(c, "__name__", "") == "DAGStub" for c in classes)

        me = _Self()
        g.ancestors_of_iter = lambda nodes: stub_ancestors_of_iter(g, nodes)
        inputs = SSeq(n_in, lambda q: SAlias("in", q), list, "inputs")
        outputs = SAlias("out", z3.IntVal(0)) if case == "outputs=single" else SSeq(n_out, lambda q: SAlias("out", q), list, "outputs")
        if case == "outputs=single":
            outputs._vc_isinstance = lambda cls: str in (cls if isinstance(cls, tuple) else (cls,))  # a single alias (a str)

        def deepcopy(o):
            if isinstance(o, SOrigNode):
                return SCopyOf(o._x)
            raise Unsupported(f"deepcopy of {type(o).__name__}")

        def strict_dict(it=None):
            col = it._vc_iter() if hasattr(it, "_vc_iter") else None
            if col is None:
                raise Unsupported("StrictDict of something else than a generator of pairs")
            qv = bv("q!sd", col.sort)
            pair = col.elem(qv)
            if not (isinstance(pair, tuple) and len(pair) == 2 and z3.eq(term(pair[0]), qv)):
                raise Unsupported("StrictDict(pairs): the key is expected to be the iteration variable")
            if isinstance(pair[1], SOrigNode):
                C.check(z3.BoolVal(False), "compose.C15.every_node_of_the_composed_dag_is_a_deep_copy_not_shared_with_the_original", {"C15", "C19"}, "assert")
                raise ContractBindError("a node of the original DAG is shared with the composed DAG")
            if isinstance(pair[1], SCopyOf):
                if not z3.eq(pair[1]._x, qv):
                    raise ContractBindError("the copy stored under an id is not the copy of the node with that id")
                T = SCopyTable()
                D0 = z3.Lambda([qv], col.pred(qv))
                sp = Sp(n_in, D0)
                C.ghost.update(T=T, sp=sp, D0_pred=col.pred)
                L0 = lambda *a: z3.IntVal(0)  # noqa: E731
                for _, fml, _ in table_clauses(T, sp, z3.IntVal(0), L0, L0, L0):
                    C.assume(fml)
                return T
            # (id, value) pairs: the results of the composed DAG
            R = SMap.fresh("composed.results", Id, Val, strict=True)
            vt = term(pair[1], Val)
            C.assume(z3.ForAll([qv], z3.And(R.dom[qv] == col.pred(qv), z3.Implies(col.pred(qv), R.val[qv] == vt))))
            return R

        def dag_ctor(**kw):
            log["ctor"].append(kw)
            return "COMPOSED-DAG"

        dag_ctor.__name__ = "DAGStub"
        DAGStub = type("DAGStub", (), {"__new__": staticmethod(lambda cls, **kw: dag_ctor(**kw))})

        def add_missing_factory(env):
            di = env.get("dag_inputs_ids")
            if di is None or not hasattr(di, "_vc_contains"):
                raise ContractBindError("_add_missing_deps uses dag_inputs_ids")
            t_ = bv("t!di", Id)
            C.assume(z3.ForAll([t_], is_dag_input(t_) == sym.tb(di._vc_contains(SId(t_)))))

            def stub(cand, xs):
                return add_missing_deps_stub(N, term(cand), xs, "compose._add_missing_deps")

            return stub

        class _W:
            @staticmethod
            def warn(*a, **k):
                pass

        C.ghost.update(N=N, n_out=n_out, nested_stubs={"_add_missing_deps": add_missing_factory})
        f.__globals__.update({"deepcopy": deepcopy, "StrictDict": strict_dict, "make_axn_id": lambda qn, old: SId(new_of(term(old))), "ArgExecNode": lambda i: SArgHolder(term(i)),
                              "UsageExecNode": SUxnCtor, "nx": lib.NxModule(), "warnings": _W, "object": SObjectShim, "DAG": DAGStub, "AsyncDAG": DAGStub})
        # A0 is fixed when set_xn_ids is created: captured lazily by the first invariant evaluation of the outputs loop
        orig_inv = LoopOutputs.inv

        n = "compose"
        try:
            # the set of inputs and outputs: snapshot for the outputs loop
            C.ghost["A0"] = z3.Lambda([q_], z3.Or(z3.Exists([j_], z3.And(j_ >= 0, j_ < n_in, in_at(j_) == q_)), z3.Exists([j_], z3.And(j_ >= 0, j_ < n_out, out_at(j_) == q_))))
            r = f(me, "QUALNAME", inputs, outputs, None, kwargs={})
        except MissingInput:
            return "raises ValueError (an output needs a DAG input that is not declared as input)"
        except ValueError:
            return "raises ValueError (unknown / ambiguous alias, or an input that another input depends on)"
        except KeyError:
            return "raises KeyError (holder id already used)"
        if len(log["ctor"]) != 1 or r != "COMPOSED-DAG":
            raise ContractBindError("compose: expected exactly one DAG construction, returned")
        kw = log["ctor"][0]
        T, sp = _g()
        p = f"{n}.post"
        C.check(z3.BoolVal(kw.get("exec_nodes") is T and kw.get("qualname") == "QUALNAME"), f"{p}.C19.the_composed_dag_is_built_from_the_table_of_copies", {"C19"}, "post")
        Lall = lambda *a: n_in  # noqa: E731
        for nm, fml, serves in table_clauses(T, sp, n_in, Lall, Lall, Lall):
            C.check(fml, f"{p}.C19.table.{nm}", serves, "post")
        D0 = sp.D0
        t_ = bv("t!po", Id)
        isin = lambda t2: sp.is_in(t2, n_in)  # noqa: E731
        C.check(z3.ForAll([t_, i_], z3.Implies(z3.And(D0[t_], i_ >= 0, i_ < n_nargs(t_)), z3.And(z3.Not(isin(T.aid[t_][i_])), T.dom[T.aid[t_][i_]]))), f"{p}.C19.no_positional_reference_to_an_input_survives_and_every_reference_is_a_key", {"C19", "C14"}, "post")
        C.check(z3.ForAll([t_, k_], z3.Implies(z3.And(D0[t_], n_kwh(t_, k_)), z3.And(z3.Not(isin(T.kwid[t_][k_])), T.dom[T.kwid[t_][k_]]))), f"{p}.C19.no_keyword_reference_to_an_input_survives_and_every_reference_is_a_key", {"C19", "C14"}, "post")
        C.check(z3.ForAll([t_], z3.Implies(z3.And(D0[t_], has_act(t_)), z3.And(z3.Not(isin(T.actid[t_])), T.dom[T.actid[t_]]))), f"{p}.C19.no_activation_reference_to_an_input_survives_and_every_reference_is_a_key", {"C19", "C10", "C14"}, "post")
        C.check(z3.ForAll([t_], z3.Implies(D0[t_], z3.And(N[t_], z3.Not(isin(t_)), z3.Or(z3.Exists([j_], z3.And(j_ >= 0, j_ < n_out, Reach(N, t_, out_at(j_)))))))), f"{p}.C19.only_nodes_that_an_output_needs_are_copied_and_no_input_is", {"C19"}, "post")
        C.check(z3.ForAll([j_], z3.Implies(z3.And(j_ >= 0, j_ < n_out, z3.Not(isin(out_at(j_)))), D0[out_at(j_)])), f"{p}.C19.every_output_that_is_not_an_input_is_copied", {"C19"}, "post")
        # inputs / outputs / results of the composed DAG
        iu = kw.get("input_uxns")
        ok_iu = isinstance(iu, SSeq)
        C.check(z3.BoolVal(ok_iu), f"{p}.C19.inputs_are_a_list_of_references", {"C19"}, "post")
        if ok_iu:
            ei, ek = uxn_terms(iu.at(j_))
            C.check(z3.And(iu.n == n_in, z3.ForAll([j_], z3.Implies(z3.And(j_ >= 0, j_ < n_in), z3.And(ei == new_of(in_at(j_)), ek == kp_empty)))), f"{p}.C19.input_j_of_the_composed_dag_is_the_holder_of_input_node_j", {"C19"}, "post")
        ru = kw.get("return_uxns")
        if case == "outputs=single":
            ri, rk = uxn_terms(ru)
            C.check(z3.And(ri == out_at(z3.IntVal(0)), rk == kp_empty), f"{p}.C19.a_single_output_is_returned_as_a_single_value", {"C19"}, "post")
        else:
            ok_ru = isinstance(ru, SSeq) and ru.kind is tuple
            C.check(z3.BoolVal(ok_ru), f"{p}.C19.outputs_are_returned_as_a_tuple", {"C19"}, "post")
            if ok_ru:
                ei, ek = uxn_terms(ru.at(j_))
                C.check(z3.And(ru.n == n_out, z3.ForAll([j_], z3.Implies(z3.And(j_ >= 0, j_ < n_out), z3.And(ei == out_at(j_), ek == kp_empty)))), f"{p}.C19.returned_value_j_is_output_node_j", {"C19"}, "post")
        R = kw.get("results")
        ok_r = isinstance(R, SMap)
        C.check(z3.BoolVal(ok_r), f"{p}.C19.results_are_a_results_map", {"C19"}, "post")
        if ok_r:
            C.check(z3.ForAll([t_], z3.And(R.dom[t_] == z3.And(r0[0][t_], T.dom[t_]), z3.Implies(R.dom[t_], R.val[t_] == r0[1][t_]))), f"{p}.C19.constants_defaults_and_setup_results_of_the_copied_nodes_are_taken_from_the_original", {"C19", "C11"}, "post")
        C.check(z3.And(results0.dom == r0[0], results0.val == r0[1]), f"{p}.C15.the_original_dag_is_untouched", {"C15", "C19"}, "post")
        return "return"
