"""Contracts of BaseDAG.compose (tawazi/_dag/dag.py) -- property C19.

Two units: the nested recursive closure `_add_missing_deps` (what the outputs need, stopping at nodes already in the
set), and `compose` itself, in which that closure is replaced by its contract stub (modular reasoning) and the four
nested rewiring loops carry invariants saying exactly which references have been rewritten so far.

Model: node ids are an uninterpreted sort; the id of the argument holder that replaces input j is `new_at(j)`
(make_axn_id: ASSUMED fresh, i.e. not an id of the original DAG -- string-level, bounded stand-in only).  The node
table of the composed DAG is a table of mutable records (the deep copies), whose reference arrays are updated in
place by the rewiring loops; the original table is read-only functions of the node id, so a write into a node that
is shared with the original would be a write outside the frame."""
import z3

from contracts.digraph_sched import SDiGraphEx
from contracts.model import SUxn, act_id, act_key, has_act
from contracts.nodebuild import SUxnCtor, uxn_terms
from contracts.nodeexec import SKeyStr
from pyvc import lib, sym
from pyvc.core import C, ContractBindError, Unsupported
from pyvc.engine import LoopSpec
from pyvc.lib import E, Reach, rank, reach_theory
from pyvc.sym import B, I, Id, Key, KPath, SBool, SId, SInt, SIter, SList, SMap, SSeq, SSet, STerm, SVal, Sym, Val, bv, kp_empty, term

x, y, p_, q_ = bv("x!c", Id), bv("y!c", Id), bv("p!c", Id), bv("q!c", Id)
is_dag_input = z3.Function("is_dag_input_without_default", Id, B)


class MissingInput(ValueError):
    pass


def closure_clauses(N, A, X, cand):
    """what _add_missing_deps(cand, xn_ids) guarantees; A: the set at entry, X: the set afterwards"""
    return [
        ("the_set_only_grows", z3.ForAll([q_], z3.Implies(A[q_], X[q_])), {"C19"}),
        ("every_predecessor_of_the_candidate_is_in_the_set", z3.ForAll([p_], z3.Implies(z3.And(N[p_], E(p_, cand)), X[p_])), {"C19"}),
        ("every_added_node_has_all_its_predecessors_in_the_set", z3.ForAll([q_, p_], z3.Implies(z3.And(X[q_], z3.Not(A[q_]), N[p_], E(p_, q_)), X[p_])), {"C19"}),
        ("only_ancestors_of_the_candidate_are_added", z3.ForAll([q_], z3.Implies(z3.And(X[q_], z3.Not(A[q_])), z3.And(N[q_], Reach(N, q_, cand)))), {"C19"}),
        ("no_default_less_dag_input_is_added", z3.ForAll([q_], z3.Implies(z3.And(X[q_], z3.Not(A[q_])), z3.Not(is_dag_input(q_)))), {"C19"}),
    ]


def add_missing_deps_stub(N, cand_t, xs, where):
    """summary contract of compose._add_missing_deps, used for its recursive call and by compose"""
    if not isinstance(xs, SSet):
        raise ContractBindError("_add_missing_deps: the set of needed nodes is not a set")
    C.check(N[cand_t], f"{where}.pre.candidate_is_a_node_of_the_graph", {"C19", "C14"}, "pre")
    A = xs.a
    if C.choose("a default-less DAG input is needed but not declared as input"):
        raise MissingInput("ExecNode ... are not declared as inputs")
    xs.havoc()
    C.mutated[id(xs)] = xs
    for _, f, _ in closure_clauses(N, A, xs.a, cand_t):
        C.assume(f)


class AddMissingDeps:
    module = "tawazi._dag.dag"
    qualname = "BaseDAG.compose._add_missing_deps"

    def __init__(self):
        self.loops = {0: self.Loop()}

    class Loop(LoopSpec):
        carried = ()

        def modifies(self, env):
            return [env["xn_ids"]]

        def inv(self, env, st):
            N, A, cand = C.ghost["N"], C.ghost["A"], C.ghost["cand"]
            X = env["xn_ids"].a
            cl = closure_clauses(N, A, X, cand)
            # "every predecessor" holds for the predecessors already visited
            cl[1] = ("every_visited_predecessor_is_in_the_set", z3.ForAll([p_], z3.Implies(st.seen[p_], X[p_])), {"C19"})
            return cl

    def run(self, f, case):
        g = SDiGraphEx(name="self.graph_ids")
        N = g.N
        reach_theory().register(N)
        C.assume(lib.acyclic_axiom())
        cand = C.fresh("candidate", Id)
        C.assume(N[cand])
        xs = SSet.fresh("xn_ids", Id)
        A = xs.a
        C.ghost.update(N=N, A=A, cand=cand)

        class _Self(Sym):
            graph_ids = g

        def rec(c_, s_):
            ct = term(c_)
            C.check(rank(ct) < rank(cand), "_add_missing_deps.recursion.C09.descends_along_an_edge_of_an_acyclic_graph", {"C19", "C09"}, "variant")
            return add_missing_deps_stub(N, ct, s_, "_add_missing_deps.recursion")

        def raise_missing(i_):
            C.check(z3.And(is_dag_input(term(i_)), z3.Not(A[term(i_)])), "_add_missing_deps.exceptional.C19.refused_only_for_a_default_less_dag_input_that_is_not_an_input", {"C19"}, "post")
            raise MissingInput("not declared as inputs")

        dag_inputs = SList(SSet.define("dag_inputs_ids", Id, lambda t_: is_dag_input(t_)))
        f.__globals__.update({"self": _Self(), "_add_missing_deps": rec, "_raise_missing_input": raise_missing, "dag_inputs_ids": dag_inputs})
        try:
            f(SId(cand), xs)
        except MissingInput:
            return "raises ValueError (missing input)"
        for nm, goal, serves in closure_clauses(N, A, xs.a, cand):
            C.check(goal, f"_add_missing_deps.post.C19.{nm}", serves, "post")
        return "return"
