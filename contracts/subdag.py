"""Contracts of the DESCRIPTION branch of DAG.__call__ (a DAG called inside another DAG's describing function) and of
construct_subdag_arg_uxns (tawazi/_dag/dag.py) -- properties C20 (equivalent to inlining) and C10 (a deactivated
nested DAG).

Ids are an uninterpreted sort; prefixing by the enclosing DAG names (`".".join(node.DAG_PREFIX + [id_])`) is the
uninterpreted function `pfx` with a left inverse (injective), on keyword names `pfxk`.  The outer node table is a map
Id -> Rec (a record sort with accessor functions for the fields a node is re-created with).  ASSUMED string-level
facts (bounded stand-ins only; KF-C20-twice is the case where the first one is false): the prefixed ids and the
argument / flag holder ids made during this call are fresh in the outer tables and pairwise distinct."""
import z3

from contracts.model import SUxn, SXn, SXnMap, act_id, act_key, has_act, is_setup
from contracts.nodebuild import (BuildState, SArg, SUxnCtor, SUxnList, a_id, a_is_uxn, a_key, a_val, axn_id, make_args_inv, slot_kw, slot_pos, uxn_terms)
from contracts.nodeexec import SKeyStr, key_const
from pyvc import sym
from pyvc.core import C, ContractBindError, Unsupported
from pyvc.engine import LoopSpec
from pyvc.sym import B, I, Id, Key, KPath, SBool, SId, SInt, SIter, SList, SMap, SSeq, SSet, STerm, SVal, Sym, Val, bv, kp_empty, term

x, y, t = bv("x!sd", Id), bv("y!sd", Id), bv("t!sd", Id)
pfx = z3.Function("to_subdag_id", Id, Id)
unpfx = z3.Function("from_subdag_id", Id, Id)
pfxk = z3.Function("to_subdag_kwname", Key, Key)
unpfxk = z3.Function("from_subdag_kwname", Key, Key)
qual = z3.Const("inner_dag_qualname", Id)


def prefix_axioms():
    k = bv("k!sd", Key)
    return [z3.ForAll([x], unpfx(pfx(x)) == x), z3.ForAll([k], unpfxk(pfxk(k)) == k)]


def img(t_):
    return pfx(unpfx(t_)) == t_


class SPrefixStack(Sym):
    """node.DAG_PREFIX"""

    def __init__(self):
        self.depth = 0
        self.log = []

    def append(self, v):
        self.depth += 1
        self.log.append(("push", v))

    def pop(self):
        self.depth -= 1
        self.log.append(("pop",))

    def __add__(self, o):
        if self.depth != 1:
            raise ContractBindError("an id is prefixed while the sub-DAG's name is not on the prefix stack")
        if isinstance(o, list) and len(o) == 1:
            return SJoin(o[0])
        raise Unsupported("DAG_PREFIX + something else than [id]")


class SJoin(Sym):
    def __init__(self, last):
        self.last = last

    def _vc_join(self, sep):
        if sep != ".":
            raise Unsupported("ids are joined with '.'")
        v = self.last
        if isinstance(v, SKeyStr) or (isinstance(v, STerm) and v.t.sort() == Key):
            return SKeyStr(pfxk(v.t))
        if isinstance(v, STerm) and v.t.sort() == Id:
            return SId(pfx(v.t))
        raise Unsupported(f"prefixing {type(v).__name__}")


# ====================================================================================================================
class ConstructSubdagArgUxns:
    module = "tawazi._dag.dag"
    qualname = "construct_subdag_arg_uxns"

    def __init__(self):
        self.loops = {0: self.Loop()}

    class Loop(LoopSpec):
        carried = ("uxns",)

        def modifies(self, env):
            st = C.ghost["st"]
            return [st.exec_nodes, st.results]

        def rebind(self, env):
            return {"uxns": SUxnList.fresh("uxns")}

        def inv(self, env, st):
            return make_args_inv(env["uxns"], st.nseen, holder=lambda q: axn_id(pfx(qual), slot_pos(q)), what="construct_subdag_arg_uxns")

    def run(self, f, case):
        from contracts.nodebuild import build_ns, id_string_axioms
        from contracts.retwrap import SNodeMod

        st = BuildState()
        ns = build_ns(st)
        ns["node"] = SNodeMod(st)
        f.__globals__.update(ns)
        nargs = C.fresh("nargs", I)
        C.assume(nargs >= 0)
        C.assume(id_string_axioms(nargs))
        args = SSeq(nargs, lambda j: SArg(a_is_uxn(j), a_id(j), a_key(j), a_val(j)), tuple, "args")
        C.ghost.update(st=st, site=pfx(qual))
        n = "construct_subdag_arg_uxns"
        try:
            r = f(args, to_subdag_id=lambda q: SId(pfx(term(q))), qualname=SId(qual))
        except KeyError:
            return "raises KeyError (holder id already used)"
        for nm, goal, serves in make_args_inv(r, nargs, holder=lambda q: axn_id(pfx(qual), slot_pos(q)), what=n):
            C.check(goal, f"{n}.post.C20.{nm}", {"C20", "C01"}, "post")
        return "return"


# ====================================================================================================================
# the description branch of DAG.__call__
# ====================================================================================================================
Rec = z3.DeclareSort("NodeRec")  # a node object stored in the outer table
r_kind = z3.Function("rec_kind", Rec, I)  # 1: copy of an inner node, 2: identity stub of a supplied argument, 3: constant holder
r_src = z3.Function("rec_copied_from", Rec, Id)  # the inner node whose function / attributes the record carries
r_nargs = z3.Function("rec_nargs", Rec, I)
r_aid = z3.Function("rec_arg_id", Rec, I, Id)
r_akey = z3.Function("rec_arg_key", Rec, I, KPath)
r_kwh = z3.Function("rec_kw_has", Rec, Key, B)
r_kwid = z3.Function("rec_kw_id", Rec, Key, Id)
r_kwkey = z3.Function("rec_kw_key", Rec, Key, KPath)
r_acth = z3.Function("rec_has_active", Rec, B)
r_actid = z3.Function("rec_active_id", Rec, Id)
r_actkey = z3.Function("rec_active_key", Rec, KPath)
r_plain = z3.Function("rec_rebuilt_as_plain_ExecNode", Rec, B)
r_asdict_active = z3.Function("rec_active_left_as_asdict_dict", Rec, B)  # the defect repaired by fix 6cce609

# the inner DAG's node table (functions of the inner node id)
n_nargs = z3.Function("inner_nargs", Id, I)
n_aid = z3.Function("inner_arg_id", Id, I, Id)
n_akey = z3.Function("inner_arg_key", Id, I, KPath)
n_kwh = z3.Function("inner_kw_has", Id, Key, B)
n_kwid = z3.Function("inner_kw_id", Id, Key, Id)
n_kwkey = z3.Function("inner_kw_key", Id, Key, KPath)
n_isret = z3.Function("inner_is_ReturnExecNode", Id, B)
dep_in = z3.Function("inner_dep", Id, Id, B)  # d is referenced by inner node x
in_id = z3.Function("inner_input_id", I, Id)
in_key = z3.Function("inner_input_key", I, KPath)
in_idx = z3.Function("inner_input_index", Id, I)
hp_inv = z3.Function("argument_holder_position", Id, I)
fh_inv = z3.Function("flag_holder_owner", Id, Id)
KW_ACT = None


def kw_act():
    from tawazi.consts import ARG_NAME_ACTIVATE

    return key_const(ARG_NAME_ACTIVATE)


def hp(i):
    """holder id of the i-th (constant) argument supplied to the sub-DAG"""
    return axn_id(pfx(qual), slot_pos(i))


def fh(owner):
    """holder id of a constant twz_active flag attached to node `owner`"""
    return axn_id(owner, slot_kw(kw_act()))


class STable(Sym):
    """node.exec_nodes of the OUTER DAG being described: StrictDict[Id, node object]"""

    def __init__(self, name="node.exec_nodes"):
        self.name = name
        self.dom = C.fresh("dom_out", sym.SetSort(Id))
        self.val = C.fresh("rec_out", z3.ArraySort(Id, Rec))
        self._serial = C.next_serial()

    def havoc(self):
        self.dom = C.fresh("dom_out", sym.SetSort(Id))
        self.val = C.fresh("rec_out", z3.ArraySort(Id, Rec))

    def snapshot(self):
        return (self.dom, self.val)

    def _vc_contains(self, k):
        return SBool(self.dom[term(k)])

    def put(self, kt, rec):
        """StrictDict.__setitem__: an occupied key raises KeyError (colliding ids: KF-C20-twice territory)"""
        if C.fork(self.dom[kt], f"{self.name}: id already used"):
            raise KeyError("key already exists")
        C.mutated[id(self)] = self
        self.dom = z3.Store(self.dom, kt, True)
        self.val = z3.Store(self.val, kt, rec)

    def __setitem__(self, k, v):
        kt = term(k)
        if isinstance(v, SNewNode):
            if not z3.eq(z3.simplify(term(v.id)), z3.simplify(kt)) and not z3.eq(term(v.id), kt):
                C.check(term(v.id) == kt, "describe.no_internal_error.node_stored_under_its_own_id", {"C20", "C14"}, "internal")
            self.put(kt, v.rec)
            return
        if hasattr(v, "_i"):  # an ArgExecNode holder
            rec = C.fresh("holder_rec", Rec)
            C.assume(r_kind(rec) == 3)
            self.put(kt, rec)
            return
        raise Unsupported(f"storing {type(v).__name__} in the node table")


class SNewNode(Sym):
    """a node object constructed by `xn_type(**values)`"""

    def __init__(self, values, plain):
        for need in ("id_", "args", "kwargs", "active"):
            if need not in values:
                raise ContractBindError(f"a re-created node is constructed without '{need}'")
        self.id = values["id_"]
        rec = C.fresh("new_rec", Rec)
        src = values.get("__src")
        i, k = bv("i!nn", I), bv("k!nn", Key)
        facts = [r_kind(rec) == 1, r_plain(rec) == z3.BoolVal(bool(plain))]
        if src is None:
            raise ContractBindError("a re-created node does not carry the attributes of an inner node (asdict)")
        facts.append(r_src(rec) == src)
        a = values["args"]
        if not isinstance(a, SSeq):
            raise ContractBindError("args of a re-created node is not a list of references")
        ai, ak = uxn_terms(a.at(i))
        facts += [r_nargs(rec) == a.n, z3.ForAll([i], z3.Implies(z3.And(i >= 0, i < a.n), z3.And(r_aid(rec, i) == ai, r_akey(rec, i) == ak)))]
        kw = values["kwargs"]
        if not isinstance(kw, SKwRefs):
            raise ContractBindError("kwargs of a re-created node is not a dict of references")
        facts += [z3.ForAll([k], z3.And(r_kwh(rec, k) == kw.has(k), z3.Implies(kw.has(k), z3.And(r_kwid(rec, k) == kw.rid(k), r_kwkey(rec, k) == kw.rkey(k)))))]
        act = values["active"]
        if act is None:
            facts.append(z3.Not(r_acth(rec)))
            facts.append(z3.Not(r_asdict_active(rec)))
        elif isinstance(act, SAsdictActive):
            facts.append(r_asdict_active(rec) == act.has)
            facts.append(r_acth(rec) == act.has)
        else:
            ti_, tk_ = uxn_terms(act)
            facts += [r_acth(rec), r_actid(rec) == ti_, r_actkey(rec) == tk_, z3.Not(r_asdict_active(rec))]
        C.assume(facts)
        self.rec = rec


class SAsdictActive(Sym):
    """values['active'] as dataclasses.asdict leaves it: None, or a plain dict (NOT a UsageExecNode)"""

    def __init__(self, has):
        self.has = has


class SKwRefs(Sym):
    """dict  keyword name -> reference"""

    def __init__(self, has, rid, rkey):
        self.has, self.rid, self.rkey = has, rid, rkey


class SInnerKwargs(Sym):
    def __init__(self, xt):
        self.xt = xt

    def items(self):
        xt = self.xt
        return SIter(Key, lambda k: n_kwh(xt, k), lambda k: (SKeyStr(k), SUxn(n_kwid(xt, k), n_kwkey(xt, k))))


class SInnerNode(SXn):
    """an ExecNode of the inner DAG (id x)"""

    def __init__(self, xt):
        SXn.__init__(self, xt, None)

    @property
    def args(self):
        xt = self._x
        return SSeq(n_nargs(xt), lambda i: SUxn(n_aid(xt, i), n_akey(xt, i)), list, "inner.args")

    @property
    def kwargs(self):
        return SInnerKwargs(self._x)

    @property
    def active(self):
        return sym.SOpt(has_act(self._x), SUxn(act_id(self._x), act_key(self._x)), "exec_node.active")

    @property
    def setup(self):
        return SBool(is_setup(self._x))

    @property
    def dependencies(self):
        from contracts.model import dep

        xt = self._x
        return SIter(Id, lambda q: dep(xt, q), lambda q: SUxn(q, kp_empty), count=None, distinct=False)

    def _vc_isinstance(self, cls):
        classes = cls if isinstance(cls, tuple) else (cls,)
        if any(getattr(c, "__name__", "") == "ReturnExecNode" for c in classes):
            return SBool(n_isret(self._x))
        raise Unsupported("isinstance of an inner node against something else than ReturnExecNode")

    def _vc_type(self):
        xt = self._x

        def same_class(**values):
            return SNewNode(values, plain=False)

        same_class.__name__ = "type(exec_node)"
        return same_class

    def _vc_subst(self, a, b):
        return SInnerNode(z3.substitute(self._x, (a, b)))


def plain_execnode(**values):
    return SNewNode(values, plain=True)


class SInnerTable(Sym):
    def __init__(self, dom):
        self.dom = dom

    def values(self):
        return SIter(Id, lambda q: self.dom[q], lambda q: SInnerNode(q))

    def __getitem__(self, k):
        kt = term(k)
        C.check(self.dom[kt], "describe.no_internal_error.inner_node_exists", {"C14", "C20"}, "internal")
        C.assume(self.dom[kt])
        return SInnerNode(kt)


class SRetShape(Sym):
    """self.return_uxns: its shape is decided per path"""

    def __init__(self):
        self.kind = None
        self.n = C.fresh("n_returned", I)
        C.assume(self.n >= 0)
        self.rid = z3.Function("ret_id", I, Id)
        self.rkey = z3.Function("ret_key", I, KPath)
        self.dk_has = z3.Function("ret_dict_has", Key, B)
        self.dk_id = z3.Function("ret_dict_id", Key, Id)
        self.dk_key = z3.Function("ret_dict_key", Key, KPath)

    def _decide(self, want):
        if self.kind is None:
            for cand in ("single", "tuple", "list", "dict"):
                if C.choose(f"return value is a {cand}"):
                    self.kind = cand
                    break
            else:
                self.kind = "other"
        return self.kind == want

    def _vc_isinstance(self, cls):
        classes = cls if isinstance(cls, tuple) else (cls,)
        names = {getattr(c, "__name__", "") for c in classes}
        wants = []
        if names & {"UsageExecNode", "SUxnCtor"}:
            wants.append("single")
        if tuple in classes:
            wants.append("tuple")
        if list in classes:
            wants.append("list")
        if dict in classes:
            wants.append("dict")
        if not wants:
            raise Unsupported("isinstance of return_uxns against an unexpected class")
        # isinstance(x, (A, B)) is true for an A and for a B
        self._decide(wants[0])
        return self.kind in wants

    # single
    @property
    def id(self):
        return SId(self.rid(z3.IntVal(0)))

    @property
    def key(self):
        return STerm(self.rkey(z3.IntVal(0)))

    # tuple / list
    def _vc_iter(self):
        it = SIter(I, lambda i: z3.And(i >= 0, i < self.n), lambda i: SUxn(self.rid(i), self.rkey(i)), count=self.n)
        it._indexed = (self.n, tuple if self.kind == "tuple" else list)
        return it

    # dict
    def items(self):
        return SIter(Key, lambda k: self.dk_has(k), lambda k: (SKeyStr(k), SUxn(self.dk_id(k), self.dk_key(k))))


class SKeyPath(STerm):
    def _vc_keypath(self):
        return self.t


def dictcomp_hook(iterable, elt, cond):
    """{key(k): UsageExecNode(...) for k, uxn in <refs>.items()}: key is the name itself or the prefixed name"""
    col = iterable._vc_iter()
    if col.sort != Key or cond is not None:
        raise Unsupported("dict comprehension outside the modelled forms")
    kb = bv("k!dh", Key)
    with sym.Binder(kb, col.pred(kb)):
        kk, val = elt(col.elem(kb))
    vi, vk = uxn_terms(val)
    k2 = bv("k2!dh", Key)
    if z3.eq(kk.t, kb):
        back = lambda q: q  # noqa: E731
        ok = lambda q: z3.BoolVal(True)  # noqa: E731
    elif z3.eq(kk.t, pfxk(kb)):
        back = lambda q: unpfxk(q)  # noqa: E731
        ok = lambda q: pfxk(unpfxk(q)) == q  # noqa: E731
    else:
        raise Unsupported("dict comprehension whose key is neither the name nor the prefixed name")
    sub = lambda term_, q: z3.substitute(term_, (kb, back(q)))  # noqa: E731
    return SKwRefs(lambda q: z3.And(ok(q), sub(col.pred(kb), q)), lambda q: sub(vi, q), lambda q: sub(vk, q))


# ---- specification predicates ---------------------------------------------------------------------------------------
class Spec:
    """expected effect of describing the sub-DAG, as predicates over (number m of wired inputs, set P of processed
    inner nodes); `case` is the form of the outer twz_active: 'none' | 'ref' | 'const'"""

    def __init__(self, case, dom_in, nargs, n_in):
        self.case, self.dom_in, self.nargs, self.n_in = case, dom_in, nargs, n_in
        self.f_id, self.f_key, self.f_val = C.fresh("flag_ref_id", Id), C.fresh("flag_ref_key", KPath), C.fresh("flag_constant", Val)
        self.M = C.fresh("n_wired_inputs", I)
        C.assume(self.M >= 0, self.M <= nargs, self.M <= n_in, z3.Or(self.M == nargs, self.M == n_in))

    @property
    def has_flag(self):
        return self.case != "none"

    def flag_arg(self):
        return SArg(z3.BoolVal(self.case == "ref"), self.f_id, self.f_key, self.f_val)

    def flagref(self, owner):
        return (self.f_id, self.f_key) if self.case == "ref" else (fh(owner), kp_empty)

    def arg_ref(self, i):
        return (z3.If(a_is_uxn(i), a_id(i), hp(i)), z3.If(a_is_uxn(i), a_key(i), kp_empty))

    def is_hp(self, t_):
        i = hp_inv(t_)
        return z3.And(i >= 0, i < self.nargs, hp(i) == t_, z3.Not(a_is_uxn(i)))

    def is_stub(self, t_, m):
        i = in_idx(unpfx(t_))
        return z3.And(img(t_), i >= 0, i < m, in_id(i) == unpfx(t_))

    def is_stub_fh(self, t_, m):
        if self.case != "const":
            return z3.BoolVal(False)
        return z3.And(fh(fh_inv(t_)) == t_, self.is_stub(fh_inv(t_), m))

    def is_copy(self, t_, P):
        return z3.And(img(t_), self.dom_in[unpfx(t_)], P[unpfx(t_)], z3.Not(self.is_stub(t_, self.M)))

    def is_copy_fh(self, t_, P):
        if self.case != "const":
            return z3.BoolVal(False)
        o = fh_inv(t_)
        return z3.And(fh(o) == t_, self.is_copy(o, P), z3.Not(is_setup(unpfx(o))))

    def stub_rec(self, r, t_):
        i = in_idx(unpfx(t_))
        ai, ak = self.arg_ref(i)
        cl = [r_kind(r) == 2, r_nargs(r) == 1, r_aid(r, 0) == ai, r_akey(r, 0) == ak]
        if self.has_flag:
            fi, fk = self.flagref(t_)
            cl += [r_acth(r), r_actid(r) == fi, r_actkey(r) == fk]
        else:
            cl += [z3.Not(r_acth(r))]
        return z3.And(*cl)

    def copy_rec_clauses(self, r, x_):
        """{name: formula}: the record stored under pfx(x_) is the inlined copy of inner node x_"""
        i, k = bv("i!cr", I), bv("k!cr", Key)
        own = z3.And(r_acth(r) == has_act(x_), z3.Implies(has_act(x_), z3.And(r_actid(r) == pfx(act_id(x_)), r_actkey(r) == act_key(x_))))
        if self.has_flag:
            fi, fk = self.flagref(pfx(x_))
            act = z3.If(is_setup(x_), own, z3.And(r_acth(r), r_actid(r) == fi, r_actkey(r) == fk))
        else:
            act = own
        return {
            "C20.same_function_and_attributes_as_the_inner_node": z3.And(r_kind(r) == 1, r_src(r) == x_),
            "C20.positional_references_are_prefixed_and_keep_their_key_path": z3.And(r_nargs(r) == n_nargs(x_), z3.ForAll([i], z3.Implies(z3.And(i >= 0, i < n_nargs(x_)), z3.And(r_aid(r, i) == pfx(n_aid(x_, i)), r_akey(r, i) == n_akey(x_, i))))),
            "C20.keyword_references_are_prefixed_and_keep_their_key_path": z3.ForAll([k], z3.And(r_kwh(r, pfxk(k)) == n_kwh(x_, k), z3.Implies(n_kwh(x_, k), z3.And(r_kwid(r, pfxk(k)) == pfx(n_kwid(x_, k)), r_kwkey(r, pfxk(k)) == n_kwkey(x_, k))))),
            "C20.no_other_keyword": z3.ForAll([k], z3.Implies(r_kwh(r, k), pfxk(unpfxk(k)) == k)),
            "C10.activation_is_the_outer_flag_for_non_setup_nodes_else_the_nodes_own_prefixed_flag": act,
            "C20.activation_reference_is_a_reference_not_a_leftover_dict": z3.Not(r_asdict_active(r)),
            "C20.return_constants_are_rebuilt_as_plain_nodes": r_plain(r) == n_isret(x_),
        }


def _state():
    return C.ghost["T"], C.ghost["R"], C.ghost["spec"]


class WireLoop(LoopSpec):
    """for axn, uxn in zip(arg_uxns, input_uxns)"""

    carried = ("registered_input_ids",)

    def modifies(self, env):
        T, R, sp = _state()
        return [T, R]

    def rebind(self, env):
        return {"registered_input_ids": SList.fresh("registered_input_ids", Id)}

    def inv(self, env, st):
        T, R, sp = _state()
        if "snapB" not in C.ghost:
            C.ghost["snapB"] = (T.dom, T.val, R.dom, R.val)
        TA = C.ghost["snapB"]
        reg = env["registered_input_ids"]
        m = st.nseen
        if isinstance(reg, list):
            if reg:
                raise ContractBindError("registered_input_ids is expected to start empty")
            regmem = lambda q: z3.BoolVal(False)  # noqa: E731
        elif isinstance(reg, SList):
            regmem = reg.s.mem
        else:
            raise ContractBindError("registered_input_ids is not a list")
        return [
            ("table_gains_exactly_the_stubs_and_their_flag_holders", z3.ForAll([t], T.dom[t] == z3.Or(TA[0][t], sp.is_stub(t, m), sp.is_stub_fh(t, m))), {"C20"}),
            ("every_wired_input_is_an_identity_stub_of_its_argument_carrying_the_outer_flag", z3.ForAll([t], z3.Implies(sp.is_stub(t, m), sp.stub_rec(T.val[t], t))), {"C20", "C10"}),
            ("other_table_entries_untouched", z3.ForAll([t], z3.Implies(z3.Not(z3.Or(sp.is_stub(t, m), sp.is_stub_fh(t, m))), T.val[t] == TA[1][t])), {"C20", "C15"}),
            ("constants_gain_exactly_the_flag_holders", z3.ForAll([t], z3.And(R.dom[t] == z3.Or(TA[2][t], sp.is_stub_fh(t, m)), R.val[t] == z3.If(sp.is_stub_fh(t, m), sp.f_val, TA[3][t]))), {"C20", "C10"}),
            ("registered_ids_are_the_wired_inputs", z3.ForAll([t], regmem(t) == sp.is_stub(t, m)), {"C20"}),
        ]


class GraphLoop(LoopSpec):
    """for xn in self.exec_nodes.values(): graph.add_exec_node(xn)"""

    carried = ()

    def modifies(self, env):
        return [env["graph"]]

    def inv(self, env, st):
        from contracts.model import dep

        g = env["graph"]
        T, R, sp = _state()
        a, b = bv("a!gl", Id), bv("b!gl", Id)
        return [
            ("seen_nodes_are_graph_nodes", z3.ForAll([a], z3.Implies(st.seen[a], g.N[a])), {"C20"}),
            ("graph_nodes_are_inner_nodes", z3.ForAll([a], z3.Implies(g.N[a], sp.dom_in[a])), {"C20", "C14"}),
            ("edges_are_the_references_of_the_seen_nodes", z3.ForAll([a, b], g.Eb[a][b] == z3.And(st.seen[b], dep(b, a))), {"C20"}),
        ]


class CopyLoop(LoopSpec):
    """while len(graph): id_ = graph.remove_any_root_node() ... node.exec_nodes[new_id] = xn_type(**values)"""

    carried = ()
    local_ok = ()

    def modifies(self, env):
        T, R, sp = _state()
        return [T, R, env["graph"]]

    def P(self, env):
        g = env["graph"]
        T, R, sp = _state()
        q = bv("q!P", Id)
        return z3.Lambda([q], z3.And(sp.dom_in[q], z3.Not(g.N[q])))

    def inv(self, env, st):
        from contracts.model import dep

        g = env["graph"]
        T, R, sp = _state()
        if "snapD" not in C.ghost:
            C.ghost["snapD"] = (T.dom, T.val, R.dom, R.val)
        TC = C.ghost["snapD"]
        P = self.P(env)
        a, b = bv("a!cl", Id), bv("b!cl", Id)
        cls = [
            ("graph_nodes_are_inner_nodes", z3.ForAll([a], z3.Implies(g.N[a], sp.dom_in[a])), {"C20", "C14"}),
            ("graph_edges_are_references", z3.ForAll([a, b], z3.Implies(g.Eb[a][b], dep(b, a))), {"C20", "C09"}),
            ("graph_size_tracked", g.card() >= 0, {"C09"}),
            ("table_gains_exactly_the_copies_and_their_flag_holders", z3.ForAll([t], T.dom[t] == z3.Or(TC[0][t], sp.is_copy(t, P), sp.is_copy_fh(t, P))), {"C20"}),
            ("other_table_entries_untouched", z3.ForAll([t], z3.Implies(z3.Not(z3.Or(sp.is_copy(t, P), sp.is_copy_fh(t, P))), T.val[t] == TC[1][t])), {"C20", "C15"}),
            ("constants_gain_exactly_the_flag_holders", z3.ForAll([t], z3.And(R.dom[t] == z3.Or(TC[2][t], sp.is_copy_fh(t, P)), R.val[t] == z3.If(sp.is_copy_fh(t, P), sp.f_val, TC[3][t]))), {"C20", "C10"}),
        ]
        if sp.has_flag:
            # an inner non-setup node that already has its own flag makes the description fail (RuntimeError) before it is copied
            cls.append(("processed_non_setup_nodes_have_no_flag_of_their_own", z3.ForAll([x], z3.Implies(z3.And(sp.is_copy(pfx(x), P), z3.Not(is_setup(x))), z3.Not(has_act(x)))), {"C10"}))
        for nm, fml in sp.copy_rec_clauses(T.val[pfx(x)], x).items():
            cls.append((f"processed_nodes.{nm}", z3.ForAll([x], z3.Implies(sp.is_copy(pfx(x), P), fml)), {"C20", "C10"}))
        return cls

    def variant(self, env, st):
        return env["graph"].card()


class DescribeSubDag:
    module = "tawazi._dag.dag"
    qualname = "DAG.__call__"

    def __init__(self):
        self.loops = {0: WireLoop(), 1: GraphLoop(), 2: CopyLoop()}

    def cases(self):
        return ["flag=none", "flag=ref", "flag=const", "other-keyword"]

    def run(self, f, case):
        from contracts import graphbuild
        from contracts.model import dep
        from pyvc import lib
        from tawazi.consts import ARG_NAME_ACTIVATE
        from tawazi.errors import TawaziUsageError

        flag = case.split("=")[-1] if case.startswith("flag=") else "none"
        dom_in = C.fresh("inner_dom", sym.SetSort(Id))
        nargs, n_in = C.fresh("nargs", I), C.fresh("n_inputs", I)
        C.assume(nargs >= 0, n_in >= 0, nargs <= n_in)  # more arguments than inputs: TypeError of the zip-free path is out of scope here
        sp = Spec(flag, dom_in, nargs, n_in)
        C.assume(sp.M == nargs)
        T = STable()
        R = SMap.fresh("node.results", Id, Val, strict=True, on_missing="raise")
        S0 = (T.dom, T.val, R.dom, R.val)
        i, j = bv("i!ds", I), bv("j!ds", I)
        C.assume(prefix_axioms())
        # the inner DAG's class invariant: inputs are distinct nodes of its table, references stay inside the table, acyclic
        C.assume(z3.ForAll([i], z3.Implies(z3.And(i >= 0, i < n_in), z3.And(dom_in[in_id(i)], in_idx(in_id(i)) == i))))
        C.assume(z3.ForAll([x, y], z3.Implies(z3.And(dom_in[x], dep(x, y)), z3.And(dom_in[y], lib.rank(y) < lib.rank(x)))))
        # ASSUMED string-level facts (module docstring): holder ids invert, and everything created by this call is fresh
        C.assume(z3.ForAll([i], z3.Implies(z3.And(i >= 0, i < nargs), hp_inv(hp(i)) == i)), z3.ForAll([y], fh_inv(fh(y)) == y))
        C.assume(z3.ForAll([x], z3.Implies(dom_in[x], z3.And(z3.Not(S0[0][pfx(x)]), z3.Not(S0[2][pfx(x)])))))
        C.assume(z3.ForAll([i], z3.Implies(z3.And(i >= 0, i < nargs), z3.And(z3.Not(S0[0][hp(i)]), z3.Not(S0[2][hp(i)]), z3.Not(z3.And(img(hp(i)), dom_in[unpfx(hp(i))]))))))
        fresh_fh = lambda o: z3.And(z3.Not(S0[0][fh(o)]), z3.Not(S0[2][fh(o)]), z3.Not(z3.And(img(fh(o)), dom_in[unpfx(fh(o))])), z3.Not(sp.is_hp(fh(o))))  # noqa: E731
        C.assume(z3.ForAll([x], z3.Implies(z3.And(dom_in[x], z3.Not(has_act(x))), fresh_fh(pfx(x)))))
        C.assume(z3.ForAll([i], z3.Implies(z3.And(i >= 0, i < n_in), fresh_fh(pfx(in_id(i))))))

        class _Self(Sym):
            pass

        me = _Self()
        me.qualname = SId(qual)
        me.exec_nodes = SInnerTable(dom_in)
        me.results = SMap.fresh("inner.results", Id, Val)
        me.input_uxns = SSeq(n_in, lambda q: SUxn(in_id(q), in_key(q)), list, "input_uxns")
        me.return_uxns = SRetShape()
        inner0 = (me.results.dom, me.results.val)
        C.assume(z3.ForAll([x], z3.Implies(me.results.dom[x], dom_in[x])))  # Inv_DAG of the inner DAG: results are keyed by its node ids
        stack = SPrefixStack()

        class _Node(Sym):
            DAG_PREFIX = stack
            exec_nodes = T
            results = SResults(R)

            @staticmethod
            def in_description_context():
                return True

        args = SSeq(nargs, lambda q: SArg(a_is_uxn(q), a_id(q), a_key(q), a_val(q)), tuple, "args")
        kwargs = {} if flag == "none" else {ARG_NAME_ACTIVATE: sp.flag_arg()}
        if case == "other-keyword":
            kwargs = {"some_keyword": SVal(C.fresh("kw", Val))}
        C.ghost.update(T=T, R=R, spec=sp, dictcomp=dictcomp_hook, lazy=[])

        def construct_stub(star=(), to_subdag_id=None, qualname=None):
            """summary contract of construct_subdag_arg_uxns (ConstructSubdagArgUxns above)"""
            if star is not args:
                raise ContractBindError("the sub-DAG's own arguments must be turned into references")
            probe = to_subdag_id(SId(C.fresh("probe", Id)))
            if not (isinstance(probe, SId) and probe.t.decl().name() == pfx.name()):
                raise ContractBindError("construct_subdag_arg_uxns must prefix with the sub-DAG's prefix")
            if C.fork(z3.Exists([i], z3.And(i >= 0, i < nargs, z3.Not(a_is_uxn(i)), z3.Or(T.dom[hp(i)], R.dom[hp(i)]))), "an argument holder id is already used"):
                raise KeyError("key already exists")
            d0, v0, rd0, rv0 = T.dom, T.val, R.dom, R.val
            T.havoc()
            R.havoc()
            C.mutated[id(T)] = T
            C.mutated[id(R)] = R
            C.assume(z3.ForAll([t], T.dom[t] == z3.Or(d0[t], sp.is_hp(t))), z3.ForAll([t], z3.Implies(z3.Not(sp.is_hp(t)), T.val[t] == v0[t])), z3.ForAll([t], z3.Implies(sp.is_hp(t), r_kind(T.val[t]) == 3)))
            C.assume(z3.ForAll([t], z3.And(R.dom[t] == z3.Or(rd0[t], sp.is_hp(t)), R.val[t] == z3.If(sp.is_hp(t), a_val(hp_inv(t)), rv0[t]))))
            return SSeq(nargs, lambda q: SUxn(*sp.arg_ref(q)), list, "arg_uxns")

        construct_stub._vc_star = True

        def make_active_stub(id_, **kw):
            """summary contract of make_active (contracts/nodebuild.py MakeActive)"""
            if ARG_NAME_ACTIVATE not in kw:
                return None
            fl = kw[ARG_NAME_ACTIVATE]
            if fl._is is True or z3.is_true(fl._is):
                return SUxn(fl._i, fl._k)
            h = fh(term(id_))
            if C.fork(z3.Or(T.dom[h], R.dom[h]), "flag holder id already used"):
                raise KeyError("key already exists")
            rec = C.fresh("holder_rec", Rec)
            C.assume(r_kind(rec) == 3)
            T.put(h, rec)
            R._set(h, fl._v)
            C.mutated[id(R)] = R
            return SUxn(h, kp_empty)

        class LazyStub(Sym):
            """LazyExecNode(...) as used for the input stubs; calling it is the summary of LazyExecNode.__call__
            (contracts/nodebuild.py LazyCall) for a fresh id: one new table entry under the node's own id"""

            def __init__(self, **kw):
                self.kw = kw
                C.ghost["lazy"].append(self)

            def __call__(self, *a, **kw):
                if len(a) != 1 or set(kw) - {ARG_NAME_ACTIVATE}:
                    raise ContractBindError("the input stub is expected to be called with its argument and the outer flag only")
                ai, ak = uxn_terms(a[0])
                act = make_active_stub(self.kw["id_"], **kw)
                rec = C.fresh("stub_rec", Rec)
                facts = [r_kind(rec) == 2, r_nargs(rec) == 1, r_aid(rec, 0) == ai, r_akey(rec, 0) == ak]
                if act is None:
                    facts.append(z3.Not(r_acth(rec)))
                else:
                    facts += [r_acth(rec), r_actid(rec) == act._i, r_actkey(rec) == act._k]
                C.assume(facts)
                T.put(term(self.kw["id_"]), rec)
                return SUxn(term(self.kw["id_"]), kp_empty)

        def asdict(o):
            if not isinstance(o, SInnerNode):
                raise ContractBindError("asdict of something else than the inner node")
            return {"id_": o.id, "args": "ASDICT-ARGS", "kwargs": "ASDICT-KWARGS", "active": SAsdictActive(has_act(o._x)), "__src": o._x}

        class _GraphB(graphbuild.SGraphB):
            def card(self):
                if getattr(self, "_cN_of", None) is None or not z3.eq(self._cN_of, self.N):
                    self._cN = C.fresh("cN_graph", I)
                    C.assume(sym.card_axioms(self.N, self._cN, Id, "el_graph"))
                    self._cN_of = self.N
                return self._cN

            def _vc_len(self):
                return SInt(self.card())

            def havoc(self):
                graphbuild.SGraphB.havoc(self)
                self._cN_of = None

            def remove_any_root_node(self):
                """summary contract of DiGraphEx.remove_any_root_node: removes and returns SOME root; ValueError iff
                there is none -- impossible for a non-empty acyclic graph (lemma L1 on the rank function)"""
                c0 = self.card()
                m = C.fresh("minrank", Id)
                u = bv("u!rr", Id)
                C.assume(z3.Implies(c0 > 0, z3.And(self.N[m], z3.ForAll([u], z3.Implies(self.N[u], lib.rank(m) <= lib.rank(u))))))  # L1
                C.check(c0 > 0, "describe.no_internal_error.root_taken_from_a_non_empty_graph", {"C14", "C20"}, "internal")
                C.check(z3.ForAll([u], z3.Implies(self.N[u], z3.Not(self.Eb[u][m]))), "describe.no_internal_error.an_acyclic_graph_has_a_root", {"C14", "C20", "C09"}, "internal")
                r = C.fresh("root", Id)
                C.assume(self.N[r], z3.ForAll([u], z3.Implies(self.N[u], z3.Not(self.Eb[u][r]))))
                self._touch()
                self.N = z3.Store(self.N, r, False)
                self._cN = C.fresh("cN_graph", I)
                C.assume(self._cN == c0 - 1, sym.card_axioms(self.N, self._cN, Id, "el_graph"))
                self._cN_of = self.N
                return SId(r)

        class _Consts:
            class Resource:
                main_thread = "main_thread"

        f.__globals__.update({
            "node": _Node, "construct_subdag_arg_uxns": construct_stub, "LazyExecNode": LazyStub, "make_active": make_active_stub, "asdict": asdict,
            "DiGraphEx": _GraphB, "UsageExecNode": SUxnCtor, "ExecNode": plain_execnode, "ReturnExecNode": type("ReturnExecNode", (), {}), "StrictDict": SPairs,
            "consts": _Consts, "cfg": None,
        })
        n = "DAG.__call__.describe"
        try:
            r = f(me, args, kwargs=kwargs)
        except TawaziUsageError:
            C.check(z3.BoolVal(case == "other-keyword"), f"{n}.exceptional.only_twz_active_is_accepted_as_keyword", {"C20", "C14"}, "post")
            C.check(z3.BoolVal(stack.depth == 0), f"{n}.exceptional.C20.prefix_stack_balanced", {"C20", "C16"}, "post")
            return "raises TawaziUsageError"
        except KeyError:
            C.check(z3.BoolVal(stack.depth in (0, 1)), f"{n}.exceptional.KeyError_for_colliding_ids", set(), "post")
            return "raises KeyError (an id is already used: KF-C20-twice / string-level collision)"
        except RuntimeError:
            ok = stack.depth == 0 or any(True for _ in ())
            # either: the outer flag meets an inner node that already has its own flag (documented limitation), or the
            # return value has an unsupported shape (then the prefix stack has been popped by the finally clause)
            C.check(z3.BoolVal(stack.depth in (0, 1)), f"{n}.exceptional.RuntimeError_paths", set(), "post")
            if me.return_uxns.kind == "other":
                C.check(z3.BoolVal(stack.depth == 0), f"{n}.exceptional.C20.prefix_stack_balanced_for_an_unsupported_return_shape", {"C20"}, "post")
                return "raises RuntimeError (return shape)"
            C.check(z3.BoolVal(flag != "none"), f"{n}.exceptional.C10.RuntimeError_only_when_an_outer_flag_meets_a_flagged_inner_node", {"C10"}, "post")
            return "raises RuntimeError (flag on flagged node)"
        C.check(z3.BoolVal(case != "other-keyword"), f"{n}.post.other_keywords_are_refused", {"C20"}, "post")
        p = f"{n}.post"
        C.check(z3.BoolVal(stack.depth == 0 and stack.log and stack.log[0][0] == "push" and isinstance(stack.log[0][1], SId) and z3.eq(stack.log[0][1].t, qual)), f"{p}.C20.prefix_pushed_and_popped_exactly_once", {"C20", "C16"}, "post")
        g = next((gb for gb in C.ghost.get("graphs_built", []) if isinstance(gb, _GraphB)), None)
        if g is None:
            raise ContractBindError("the inner nodes are expected to be processed through a graph in dependency order")
        P = z3.Lambda([bv("q!P", Id)], z3.BoolVal(True))
        allP = z3.K(Id, True)
        M = sp.M
        # the table: stubs + copies + holders, nothing else
        C.check(z3.ForAll([t], T.dom[t] == z3.Or(S0[0][t], sp.is_hp(t), sp.is_stub(t, M), sp.is_stub_fh(t, M), sp.is_copy(t, allP), sp.is_copy_fh(t, allP))), f"{p}.C20.outer_table_gains_exactly_stubs_copies_and_holders", {"C20", "C15"}, "post")
        C.check(z3.ForAll([t], z3.Implies(S0[0][t], T.val[t] == S0[1][t])), f"{p}.C20.no_outer_node_is_captured_or_overwritten", {"C20", "C15"}, "post")
        C.check(z3.ForAll([i], z3.Implies(z3.And(i >= 0, i < M), z3.And(T.dom[pfx(in_id(i))], sp.stub_rec(T.val[pfx(in_id(i))], pfx(in_id(i)))))), f"{p}.C20.supplied_argument_i_is_wired_to_input_i_by_an_identity_stub_carrying_the_outer_flag", {"C20", "C10"}, "post")
        C.check(z3.ForAll([i], z3.Implies(z3.And(i >= 0, i < M), z3.Not(R.dom[pfx(in_id(i))]))), f"{p}.C20.a_supplied_argument_is_not_shadowed_by_the_parameters_default", {"C20"}, "post")
        C.check(z3.ForAll([x], z3.Implies(z3.And(inner0[0][x], z3.Not(sp.is_stub(pfx(x), M))), z3.And(R.dom[pfx(x)], R.val[pfx(x)] == inner0[1][x]))), f"{p}.C20.constants_defaults_and_setup_results_are_copied_under_the_prefixed_ids", {"C20", "C11"}, "post")
        C.check(z3.ForAll([t], z3.Implies(S0[2][t], z3.And(R.dom[t], z3.Or(R.val[t] == S0[3][t], z3.And(img(t), inner0[0][unpfx(t)]))))), f"{p}.C20.outer_constants_are_kept", {"C20", "C15"}, "post")
        for nm, fml in sp.copy_rec_clauses(T.val[pfx(x)], x).items():
            C.check(z3.ForAll([x], z3.Implies(z3.And(dom_in[x], z3.Not(sp.is_stub(pfx(x), M))), z3.And(T.dom[pfx(x)], fml))), f"{p}.every_inner_node.{nm}", {"C20", "C10"} if "C10" in nm else {"C20"}, "post")
        C.check(z3.And(me.results.dom == inner0[0], me.results.val == inner0[1]), f"{p}.C15.the_inner_dag_is_untouched", {"C15", "C20"}, "post")
        # return shape
        ru = me.return_uxns
        k = bv("k!rs", Key)
        if ru.kind == "single":
            ri, rk = uxn_terms(r)
            C.check(z3.And(ri == pfx(ru.rid(z3.IntVal(0))), rk == ru.rkey(z3.IntVal(0))), f"{p}.C20.single_return_reference_prefixed", {"C20"}, "post")
        elif ru.kind in ("tuple", "list"):
            ok = isinstance(r, SSeq) and r.kind is (tuple if ru.kind == "tuple" else list)
            C.check(z3.BoolVal(bool(ok)), f"{p}.C20.return_shape_kept", {"C20"}, "post")
            if ok:
                ei, ek = uxn_terms(r.at(i))
                C.check(z3.And(r.n == ru.n, z3.ForAll([i], z3.Implies(z3.And(i >= 0, i < ru.n), z3.And(ei == pfx(ru.rid(i)), ek == ru.rkey(i))))), f"{p}.C20.returned_references_prefixed_in_order_with_their_key_paths", {"C20"}, "post")
        elif ru.kind == "dict":
            ok = isinstance(r, SKwRefs)
            C.check(z3.BoolVal(ok), f"{p}.C20.return_shape_kept", {"C20"}, "post")
            if ok:
                C.check(z3.ForAll([k], z3.And(r.has(k) == ru.dk_has(k), z3.Implies(ru.dk_has(k), z3.And(r.rid(k) == pfx(ru.dk_id(k)), r.rkey(k) == ru.dk_key(k))))), f"{p}.C20.returned_dict_keeps_its_keys_references_prefixed", {"C20"}, "post")
        return f"return ({ru.kind})"


class SPairs(Sym):
    """StrictDict(<generator of (key, value) pairs>)"""

    def __init__(self, it=None):
        self.it = it


class SResults(Sym):
    """node.results of the outer DAG"""

    def __init__(self, R):
        self.R = R

    def update(self, other):
        R = self.R
        if not isinstance(other, SPairs) or other.it is None or not hasattr(other.it, "_vc_iter"):
            raise Unsupported("node.results.update of something else than StrictDict(generator of pairs)")
        col = other.it._vc_iter()
        q = bv("q!ru", col.sort)
        pair = col.elem(q)
        if not (isinstance(pair, tuple) and len(pair) == 2 and z3.eq(term(pair[0]), pfx(q))):
            raise Unsupported("results are expected to be copied under the prefixed id")
        vt = term(pair[1], Val)
        d0, v0 = R.dom, R.val
        R.havoc()
        C.mutated[id(R)] = R
        hit = lambda t_: z3.And(img(t_), z3.substitute(col.pred(q), (q, unpfx(t_))))  # noqa: E731
        C.assume(z3.ForAll([t], z3.And(R.dom[t] == z3.Or(d0[t], hit(t)), R.val[t] == z3.If(hit(t), z3.substitute(vt, (q, unpfx(t))), v0[t]))))
