"""Contracts of the scheduler: async_execute (loop invariant of DESIGN.md section 4), wait_for_finished_nodes,
wait_for_finished_nodes_async, _xn_active_in_call.  Each property-level assertion (C02 ... C10, C14, C17) is a
named obligation attached to the primitive where it must hold (submit / ensure_future / inline execute / wait).
"""
import z3

from contracts.digraph_sched import RemoveRootNode, RootNodes
from contracts.model import (ACTIVE, VAL, SBiDict, SBoundExecute, SUxn, SXn, SXnMap, act_id, act_key, dep, has_act, node_of, res, seq)
from pyvc import sym
from pyvc.core import C, ContractBindError, Unsupported
from pyvc.engine import LoopSpec, SAwaitable
from pyvc.lib import E, SGraph, acyclic_axiom, rank
from pyvc.sym import (B, Fut, I, Id, R_ASYNC, R_MAIN, R_THREAD, SBool, SFut, SId, SInt, SMap, SSet, SVal, Val, bv, card_axioms, none, term)

x, u, y = bv("x!s", Id), bv("u!s", Id), bv("y!s", Id)
f_ = bv("f!s", Fut)


class NodeFailure(BaseException):
    """what a failing node's `execute` raises (TawaziBaseException derives from BaseException, so does this)"""

    def __init__(self, node_term, where):
        super().__init__(where)
        self.node, self.where = node_term, where


def sym_store_set(arr, pred):
    """arr + { t | pred(t) } as a fresh array"""
    n = C.fresh("set", sym.SetSort(Id))
    C.assume(z3.ForAll([x], n[x] == z3.Or(arr[x], pred(x))))
    return n


class Sched:
    """Ghost + concrete state of one execution of the scheduler."""

    KINDS = ("conc", "async")

    def __init__(self, tag=""):
        self.tag = tag
        # static
        self.Sel = C.fresh("Sel", sym.SetSort(Id))
        self.maxc = C.fresh("max_concurrency", I)
        self.xn_dom = C.fresh("xn_dom", sym.SetSort(Id))
        self.dom0 = None  # domain / values of `results` at entry
        self.val0 = None
        # proxies (bound at cut points)
        self.graph = None
        self.results = None
        self.profiles = None
        self.futures = {"conc": None, "async": None}
        self.running = {"conc": None, "async": None}
        self.runnable = None
        self.executor = None
        # ghost sets
        self.started = sym.K_false(Id)
        self.finished = sym.K_false(Id)
        self.skipped = sym.K_false(Id)
        self.pend = None
        self.cPend = None
        self.born = sym.K_false(Fut)
        self.checked = sym.K_false(Fut)  # ghost: futures whose result() was called (failure not swallowed)
        self.async_wait_blocked = False  # python flag of the current path: the async wait of a pair blocked

    # ---- derived predicates ---------------------------------------------------------------------------------
    def kindI(self, k, t, running=None):
        fm = self.futures[k].fwd
        r = running if running is not None else self.running[k]
        return z3.And(fm.dom[t], r.mem(fm.val[t]))

    def infl(self, t):
        return z3.Or(self.kindI("conc", t), self.kindI("async", t))

    def n_inflight(self):
        return self.running["conc"].c + self.running["async"].c

    def ready(self, t):
        return z3.And(self.graph.N[t], z3.Not(self.started[t]), z3.ForAll([u], z3.Implies(self.graph.N[u], z3.Not(E(u, t)))))

    def static_axioms(self):
        """wf_exec: the precondition of async_execute (established by its callers)"""
        return [
            acyclic_axiom(),  # P3
            self.maxc >= 1,  # P4
            z3.ForAll([x, y], z3.Implies(z3.And(dep(x, y), self.G0[x], self.G0[y]), E(y, x))),  # P2
            z3.ForAll([x], z3.Implies(has_act(x), dep(x, act_id(x)))),
            z3.ForAll([x], z3.Implies(self.G0[x], self.xn_dom[x])),  # P1
            z3.ForAll([x], self.Sel[x] == z3.And(self.G0[x], z3.Not(self.dom0[x]))),  # definition of the selection
        ]

    # ---- the invariant -------------------------------------------------------------------------------------------
    def inv_mid(self):
        S = self
        G, run = S.graph.N, S.runnable
        st, fin, sk = S.started, S.finished, S.skipped
        rd, rv = S.results.dom, S.results.val
        cl = [
            ("I1a.graph_within_selection", z3.ForAll([x], z3.Implies(G[x], S.Sel[x])), {"C03", "C11", "C12"}),
            ("I1b.selected_done_xor_remaining", z3.ForAll([x], z3.Implies(S.Sel[x], G[x] != z3.Or(fin[x], sk[x]))), {"C03", "C09", "C02", "C14"}),
            ("I1c.finished_skipped_disjoint", z3.ForAll([x], z3.Not(z3.And(fin[x], sk[x]))), {"C03", "C10"}),
            ("I2a.ghost_within_selection", z3.ForAll([x], z3.Implies(z3.Or(st[x], fin[x], sk[x]), S.Sel[x])), {"C03"}),
            ("I2b.finished_started", z3.ForAll([x], z3.Implies(fin[x], st[x])), {"C03"}),
            ("I2c.skipped_never_started", z3.ForAll([x], z3.Implies(sk[x], z3.Not(st[x]))), {"C03", "C10"}),
            ("I3a.inflight_is_started_unfinished", z3.ForAll([x], S.infl(x) == z3.And(st[x], z3.Not(fin[x]))), {"C03", "C04", "C05", "C09"}),
            ("I3b.kinds_disjoint", z3.ForAll([x], z3.Not(z3.And(S.kindI("conc", x), S.kindI("async", x)))), {"C04"}),
            ("I3c.conc_is_thread", z3.ForAll([x], z3.Implies(S.kindI("conc", x), res(x) == R_THREAD)), {"C04", "C17"}),
            ("I3d.async_is_async_thread", z3.ForAll([x], z3.Implies(S.kindI("async", x), res(x) == R_ASYNC)), {"C04", "C17"}),
            ("I4a1.runnable_in_graph", z3.ForAll([x], z3.Implies(run.mem(x), G[x])), {"C03", "C14"}),
            ("I4a2.runnable_unstarted", z3.ForAll([x], z3.Implies(run.mem(x), z3.Not(st[x]))), {"C03"}),
            ("I4b.runnable_no_pred", z3.ForAll([x, u], z3.Implies(z3.And(run.mem(x), G[u]), z3.Not(E(u, x)))), {"C02"}),
            ("I4c.ready_is_runnable", z3.ForAll([x], z3.Implies(z3.And(G[x], z3.Not(st[x]), z3.Not(run.mem(x))), z3.Exists([u], z3.And(G[u], E(u, x))))), {"C06", "C08", "C09"}),
            ("I5.inflight_no_pred", z3.ForAll([x, u], z3.Implies(z3.And(S.infl(x), G[u]), z3.Not(E(u, x)))), {"C02", "C09"}),
            ("I6.limit", S.n_inflight() <= S.maxc, {"C04"}),
            ("I7.pending", z3.ForAll([x], S.pend[x] == z3.And(G[x], z3.Not(st[x]))), {"C09"}),
            ("I9a.results_of_finished_present", z3.ForAll([x], z3.Implies(z3.And(z3.Not(S.infl(x)), z3.Or(S.dom0[x], fin[x])), rd[x])), {"C02", "C01"}),
            ("I9b.no_other_results", z3.ForAll([x], z3.Implies(z3.And(z3.Not(S.infl(x)), rd[x]), z3.Or(S.dom0[x], fin[x], sk[x]))), {"C03", "C11", "C14"}),
            ("I10a.skipped_reads_as_None", z3.ForAll([x], z3.Implies(z3.And(sk[x], rd[x]), rv[x] == none)), {"C10"}),
            ("I10b.given_values_kept", z3.ForAll([x], z3.Implies(S.dom0[x], rv[x] == S.val0[x])), {"C01", "C15", "C11"}),
        ]
        for k in S.KINDS:
            fm, im, r = S.futures[k].fwd, S.futures[k].inv, S.running[k]
            rk = R_THREAD if k == "conc" else R_ASYNC
            cl += [
                (f"F1.{k}.running_registered", z3.ForAll([f_], z3.Implies(r.mem(f_), z3.And(S.born[f_], im.dom[f_], node_of(f_) == im.val[f_]))), {"C14", "C03"}),
                (f"F2a.{k}.bidict_fwd", z3.ForAll([x], z3.Implies(fm.dom[x], z3.And(im.dom[fm.val[x]], im.val[fm.val[x]] == x, S.born[fm.val[x]]))), {"C14"}),
                (f"F2b.{k}.bidict_inv", z3.ForAll([f_], z3.Implies(im.dom[f_], z3.And(fm.dom[im.val[f_]], fm.val[im.val[f_]] == f_))), {"C14"}),
                (f"F3.{k}.registered_started", z3.ForAll([x], z3.Implies(fm.dom[x], z3.And(st[x], res(x) == rk))), {"C03", "C04"}),
            ]
        return cl

    def inv_head(self):
        return self.inv_mid() + [("I8.no_sequential_in_flight", z3.ForAll([x], z3.Implies(self.infl(x), z3.Not(seq(x)))), {"C05"})]

    def card_facts(self):
        """ghost cardinality of `pend` (weak axioms) -- assumed when the state is havoced"""
        return card_axioms(self.pend, self.cPend, Id, "el_pend")

    def variant(self):
        return self.graph.cN + self.cPend

    def lemma_L1(self):
        """L1 (Lean: Finset.exists_min_image): a non-empty finite node set has a rank-minimal element"""
        m = C.fresh("minrank", Id)
        return z3.Implies(self.graph.cN > 0, z3.And(self.graph.N[m], z3.ForAll([y], z3.Implies(self.graph.N[y], rank(m) <= rank(y)))))

    # ---- havoc ----------------------------------------------------------------------------------------------------
    def havoc_ghost(self):
        self.started = C.fresh("started", sym.SetSort(Id))
        self.finished = C.fresh("finished", sym.SetSort(Id))
        self.skipped = C.fresh("skipped", sym.SetSort(Id))
        self.pend = C.fresh("pend", sym.SetSort(Id))
        self.cPend = C.fresh("cPend", I)
        self.born = C.fresh("born", sym.SetSort(Fut))
        C.assume(self.card_facts())

    def rely_step(self):
        """Workers may have written results[x] / profiles[x] for in-flight x (DESIGN 3.4): the scheduler knows
        nothing about those entries; everything else is stable."""
        rd, rv = self.results.dom, self.results.val
        nd, nv = C.fresh("dom_results", sym.SetSort(Id)), C.fresh("val_results", z3.ArraySort(Id, Val))
        C.assume(z3.ForAll([x], z3.Implies(z3.Not(self.infl(x)), z3.And(nd[x] == rd[x], nv[x] == rv[x]))))
        self.results.dom, self.results.val = nd, nv
        self.results.cdom = None

    # ---- property-level obligations at a dispatch ------------------------------------------------------------------
    def dispatch_obligations(self, h, how):
        S = self
        pre = f"async_execute.dispatch.{how}"
        C.check(z3.ForAll([u], z3.Implies(z3.And(S.Sel[u], E(u, h)), z3.Or(S.finished[u], S.skipped[u]))), f"{pre}.C02.preds_finished", {"C02"}, "assert")
        C.check(z3.ForAll([u], z3.Implies(z3.And(dep(h, u), z3.Not(S.Sel[u])), z3.Not(S.infl(u)))), f"{pre}.C02.other_deps_not_running", {"C02"}, "assert")
        C.check(z3.Not(S.started[h]), f"{pre}.C03.not_started", {"C03"}, "assert")
        C.check(z3.And(S.Sel[h], S.graph.N[h]), f"{pre}.C03.selected", {"C03", "C12", "C11"}, "assert")
        C.check(z3.Not(S.results.dom[h]), f"{pre}.C03.no_result_yet", {"C03", "C11"}, "assert")
        C.check(ACTIVE(S.results.dom, S.results.val, h), f"{pre}.C10.active", {"C10", "C03"}, "assert")
        C.check(z3.Implies(seq(h), S.n_inflight() == 0), f"{pre}.C05.seq_alone", {"C05"}, "assert")
        C.check(z3.ForAll([x], z3.Implies(S.infl(x), z3.Not(seq(x)))), f"{pre}.C05.no_seq_inflight", {"C05"}, "assert")
        C.check(z3.ForAll([y], z3.Implies(S.ready(y), S.graph.compound_priority.val[y] <= S.graph.compound_priority.val[h])), f"{pre}.C06.max_cp_of_ready", {"C06"}, "assert")
        rk = {"submit": R_THREAD, "ensure_future": R_ASYNC, "inline": R_MAIN}[how]
        C.check(res(h) == rk, f"{pre}.C04.resource_decides_primitive", {"C04", "C17"}, "assert")
        if how != "inline":
            C.check(S.n_inflight() < S.maxc, f"{pre}.C04.below_limit", {"C04"}, "assert")

    def mark_started(self, h):
        self.started = z3.Store(self.started, h, True)
        self.pend = z3.Store(self.pend, h, False)
        self.cPend = self.cPend - 1  # h was pending (not started, in graph): proved by C03.not_started + C03.selected

    def new_future(self, h, kind):
        fu = C.fresh("future", Fut)
        C.assume(z3.Not(self.born[fu]), node_of(fu) == h)  # trusted: submit / ensure_future return a fresh future
        self.born = z3.Store(self.born, fu, True)
        return SFut(fu)


# ====================================================================================================================
# hooks: what the library primitives do to the ghost state while async_execute runs
# ====================================================================================================================
class SchedHooks:
    def __init__(self, S):
        self.S = S

    # UsageExecNode.result -- contract stub (contracts/values.py proves the real method against VAL)
    def uxn_result(self, uxn, results):
        return SVal(VAL(results.dom, results.val, uxn._i, uxn._k))

    def check_exec_args(self, a, k, where):
        S = self.S
        if a or set(k) != {"results", "profiles"}:
            raise ContractBindError(f"{where}: execute is expected to be called with results= and profiles=")
        if k["results"] is not S.results or k["profiles"] is not S.profiles:
            raise ContractBindError(f"{where}: execute must receive the execution's own results / profiles maps")

    def inline_execute(self, xn, *a, **k):
        """contract of ExecNode.execute called on the scheduler thread (main-thread resource)"""
        S = self.S
        self.check_exec_args(a, k, "inline execute")
        h = xn._x
        S.dispatch_obligations(h, "inline")
        S.mark_started(h)
        if C.choose("node function raises"):
            raise NodeFailure(h, "inline")
        v = C.fresh("value", Val)
        S.results[SId(h)] = SVal(v)  # StrictDict write: the obligation 'key absent' is generated by the proxy
        S.finished = z3.Store(S.finished, h, True)
        return SVal(v)

    def submit(self, executor, fn, *a, **k):
        S = self.S
        if executor is not S.executor:
            raise ContractBindError("submit on another executor")
        if not isinstance(fn, SBoundExecute):
            raise ContractBindError("submit of something else than xn.execute")
        self.check_exec_args(a, k, "executor.submit")
        h = fn.xn._x
        S.dispatch_obligations(h, "submit")
        S.mark_started(h)
        return S.new_future(h, "conc")

    def ensure_future(self, aw):
        S = self.S
        if not (isinstance(aw, SAwaitable) and getattr(aw, "what", None) == "to_thread_in_executor"):
            raise ContractBindError("ensure_future of something else than to_thread_in_executor(...)")
        if aw.executor is not S.executor or not isinstance(aw.func, SBoundExecute):
            raise ContractBindError("to_thread_in_executor must be given xn.execute and the execution's pool")
        self.check_exec_args(aw.args, aw.kwargs, "to_thread_in_executor")
        h = aw.func.xn._x
        S.dispatch_obligations(h, "ensure_future")
        S.mark_started(h)
        return S.new_future(h, "async")

    def future_result(self, fut):
        """Future.result() of a future reported done: re-raises the node's exception or returns (trusted)"""
        S = self.S
        h = node_of(fut.t)
        if C.choose("future holds an exception"):
            raise NodeFailure(h, "future")
        S.checked = z3.Store(S.checked, fut.t, True)  # ghost: this future was asked for its exception
        # guarantee of ExecNode.execute (contracts/values.py: execute.post.result_written) carried by the future:
        # a normal return of result() means execute returned normally, hence results[h] is written
        C.assume(S.results.dom[h])
        return SVal(S.results.val[h])


# ====================================================================================================================
# contract of the two wait helpers (one contract object, two bodies: that identity is part of C17)
# ====================================================================================================================
def c08_allowed_to_block(S):
    """property C08, evaluated on the scheduler's knowledge state when a wait is about to block"""
    h = bv("h!c08", Id)
    cp = S.graph.compound_priority.val
    best_ready_is_seq = z3.Exists([h], z3.And(S.ready(h), seq(h), z3.ForAll([y], z3.Implies(S.ready(y), cp[y] <= cp[h]))))
    return z3.Or(
        S.n_inflight() == S.maxc,
        z3.ForAll([x], z3.Not(S.ready(x))),
        z3.Exists([x], z3.And(S.infl(x), seq(x))),
        best_ready_is_seq,
    )


def wait_stub_effect(S, kind, return_when, graph, futures, done, running, runnable, fn="wait"):
    """The contract of wait_for_finished_nodes(_async) as seen by its caller: assert the precondition, havoc what the
    helper modifies, assume the postcondition.  Returns (done', running', runnable')."""
    if graph is not S.graph or futures is not S.futures[kind] or running is not S.running[kind] or runnable is not S.runnable:
        raise ContractBindError(f"{fn}: called with other objects than the execution's graph / futures / running / runnable sets")
    from concurrent.futures import ALL_COMPLETED, FIRST_COMPLETED

    if return_when not in (ALL_COMPLETED, FIRST_COMPLETED):
        raise ContractBindError(f"{fn}: return_when {return_when!r}")
    for name, goal, serves in S.inv_mid():
        C.check(goal, f"{fn}.pre.{name}", serves, kind="pre")
    if not C.fork(running.c != 0, f"{fn}: something is running"):
        return done, running, runnable
    # ---- the helper blocks: property-level obligations at this blocking point
    tag = f"{fn}.{return_when}" + (".after_async_wait_blocked" if (kind == "conc" and S.async_wait_blocked) else "")
    C.check(c08_allowed_to_block(S), f"{tag}.C08.allowed_to_block", {"C08"}, "assert")
    C.check(z3.Or(z3.BoolVal(return_when == FIRST_COMPLETED), z3.Exists([x], z3.And(S.infl(x), seq(x)))), f"{tag}.C08.first_completed_unless_sequential_running", {"C08"}, "assert")
    if kind == "async":
        S.async_wait_blocked = True
    # ---- post state
    fm = futures.fwd
    D = SSet.fresh("done_", Fut)
    R2 = SSet.fresh("still_running", Fut)
    C.assume(
        z3.ForAll([f_], running.mem(f_) == z3.Or(D.mem(f_), R2.mem(f_))),
        z3.ForAll([f_], z3.Not(z3.And(D.mem(f_), R2.mem(f_)))),
        D.c >= 1,
        D.c + R2.c == running.c,
    )
    if return_when == ALL_COMPLETED:
        C.assume(R2.c == 0)
    dn = lambda t: z3.And(fm.dom[t], D.mem(fm.val[t]))  # noqa: E731
    if C.choose(f"{fn}: a finished future holds an exception"):
        bad = C.fresh("failed_node", Id)
        C.assume(dn(bad), graph.N[bad])
        raise NodeFailure(bad, fn)
    old = dict(G=graph.N, cG=graph.cN, fin=S.finished, rd=S.results.dom, rv=S.results.val, infl=S.infl)
    old_infl = [S.infl(x)]
    S.rely_step()
    graph._touch()
    graph.N = C.fresh("N_graph", sym.SetSort(Id))
    graph.cN = C.fresh("cN_graph", I)
    C.assume(card_axioms(graph.N, graph.cN, Id, "el_graph"))
    S.finished = C.fresh("finished", sym.SetSort(Id))
    runnable.havoc()
    runnable._touch()
    S.running[kind] = R2
    C.assume(
        z3.ForAll([x], graph.N[x] == z3.And(old["G"][x], z3.Not(dn(x)))),
        graph.cN == old["cG"] - D.c,
        z3.ForAll([x], S.finished[x] == z3.Or(old["fin"][x], dn(x))),
    )
    for name, goal, serves in S.inv_mid():
        C.assume(goal)
    return done.union(D) if isinstance(done, SSet) else done, R2, runnable


class WaitForFinishedNodes:
    """verifies the real helper bodies against the contract used above"""

    module = "tawazi._dag.helpers"

    def __init__(self, kind):
        self.kind = kind
        self.qualname = "wait_for_finished_nodes" if kind == "conc" else "wait_for_finished_nodes_async"
        self.loops = {0: self.Loop(self)}

    def cases(self):
        return ["FIRST_COMPLETED", "ALL_COMPLETED"]

    class Loop(LoopSpec):
        carried = ()
        local_ok = ("runnable_xns_ids",)  # `|=` on a set: mutated in place (checked by identity at the back edge)

        def __init__(self, outer):
            self.o = outer

        def modifies(self, env):
            S = C.ghost["S"]
            return [S.graph, S.runnable]

        def ghost_havoc(self, env, st):
            S = C.ghost["S"]
            S.checked = C.fresh("checked", sym.SetSort(Fut))
            S.finished = C.fresh("finished", sym.SetSort(Id))

        def inv(self, env, st):
            S = C.ghost["S"]
            o = C.ghost["wait"]
            kind = self.o.kind
            fm = S.futures[kind].fwd
            D, R2 = o["D"], o["R2"]
            # during the loop the futures of this kind still "running" are R2 + (D - seen)
            Rv = SSet.fresh("virt_running", Fut)
            C.assume(z3.ForAll([f_], Rv.mem(f_) == z3.Or(R2.mem(f_), z3.And(D.mem(f_), z3.Not(st.seen[f_])))), Rv.c == R2.c + D.c - st.nseen)
            saved = S.running[kind]
            S.running[kind] = Rv
            seenI = lambda t: z3.And(fm.dom[t], st.seen[fm.val[t]])  # noqa: E731
            cl = [
                ("graph_minus_seen", z3.ForAll([x], S.graph.N[x] == z3.And(o["G0"][x], z3.Not(seenI(x)))), {"C02", "C03", "C09"}),
                ("graph_card", S.graph.cN == o["cG0"] - st.nseen, {"C09"}),
                ("finished_plus_seen", z3.ForAll([x], S.finished[x] == z3.Or(o["fin0"][x], seenI(x))), {"C03"}),
                ("C14.no_failure_swallowed", z3.ForAll([f_], z3.Implies(st.seen[f_], S.checked[f_])), {"C14"}),
                ("results_of_removed_nodes_present", z3.ForAll([x], z3.Implies(seenI(x), S.results.dom[x])), {"C02", "C01"}),
            ] + [c for c in S.inv_mid() if not c[0].startswith("I9a")]
            S.running[kind] = saved
            return cl

    def namespace(self):
        kind = self.kind

        def wait_trusted(running, return_when=None):
            """TRUSTED contract of concurrent.futures.wait / asyncio.wait (DESIGN 3.3)"""
            from concurrent.futures import ALL_COMPLETED, FIRST_COMPLETED

            S = C.ghost["S"]
            if return_when not in (ALL_COMPLETED, FIRST_COMPLETED):
                raise Unsupported("return_when")
            C.check(running.c != 0, "wait.nonempty_set", {"C09"}, "assert")  # waiting on nothing would be relied on
            D = SSet.fresh("done_", Fut)
            R2 = SSet.fresh("not_done", Fut)
            C.assume(
                z3.ForAll([f_], running.mem(f_) == z3.Or(D.mem(f_), R2.mem(f_))),
                z3.ForAll([f_], z3.Not(z3.And(D.mem(f_), R2.mem(f_)))),
                D.c >= 1,
                D.c + R2.c == running.c,
            )
            if return_when == ALL_COMPLETED:
                C.assume(R2.c == 0)
            S.rely_step()
            C.ghost["wait"].update(D=D, R2=R2, rw=return_when)
            return D, R2

        ns = {"wait": wait_trusted}
        if kind == "async":
            class _Asyncio:
                @staticmethod
                def wait(running, return_when=None):
                    return SAwaitable(lambda: wait_trusted(running, return_when=return_when))

            ns["asyncio"] = _Asyncio
        else:
            ns["asyncio"] = None
        return ns

    def run(self, f, case):
        kind = self.kind
        S = make_symbolic_state()
        hooks = SchedHooks(S)
        C.ghost.update(S=S, hooks=hooks, wait={})
        def remove_done(r):
            # ghost: an in-flight node observed done leaves the graph -> it is finished; its future must have been
            # asked for its exception first (otherwise a failure would be swallowed)
            h = r.t
            fu = S.futures[kind].fwd.val[h]
            C.check(S.checked[fu], f"{self.qualname}.remove.C14.future_was_asked_for_its_exception", {"C14"}, "assert")
            S.finished = z3.Store(S.finished, h, True)
            return RemoveRootNode.stub(S.graph, r)

        S.graph.remove_root_node = remove_done
        C.assume([g for _, g, _ in S.inv_mid()])
        done = SSet.fresh("done", Fut)
        running, runnable, graph, futures = S.running[kind], S.runnable, S.graph, S.futures[kind]
        snap = dict(G0=graph.N, cG0=graph.cN, fin0=S.finished, started=S.started, skipped=S.skipped, pend=S.pend, cPend=S.cPend,
                    run_a=runnable.a, other=S.running["async" if kind == "conc" else "conc"], rc=running.c, rd=S.results.dom, rv=S.results.val)
        C.ghost["wait"].update(snap)
        infl0 = S.infl
        old_infl = lambda t, S0=(S.futures, dict(S.running)): z3.Or(  # noqa: E731
            z3.And(S0[0]["conc"].fwd.dom[t], S0[1]["conc"].mem(S0[0]["conc"].fwd.val[t])),
            z3.And(S0[0]["async"].fwd.dom[t], S0[1]["async"].mem(S0[0]["async"].fwd.val[t])))
        C.mutated = {}
        try:
            r = f(case, graph, futures, done, running, runnable)
            if isinstance(r, SAwaitable):
                r = r.run()
            d2, r2, ru2 = r
        except NodeFailure as e:
            C.check(graph.N[e.node], f"{self.qualname}.exceptional.failed_node_still_in_graph", {"C14"}, "post")
            w = C.ghost["wait"]
            if "D" in w:
                fm = futures.fwd
                C.check(z3.And(fm.dom[e.node], w["D"].mem(fm.val[e.node])), f"{self.qualname}.exceptional.raised_by_a_done_future", {"C14"}, "post")
            return "raises NodeFailure"
        w = C.ghost["wait"]
        pre = f"{self.qualname}.post"
        if "D" not in w:
            # nothing was running: returns immediately, nothing changes
            C.check(running.c == 0, f"{pre}.empty.only_when_nothing_running", {"C09", "C08"}, "post")
            C.check(z3.And(graph.N == snap["G0"], S.finished == snap["fin0"], ru2 is runnable and r2 is running), f"{pre}.empty.nothing_changed", {"C09"}, "post")
            C.check(runnable.a == snap["run_a"], f"{pre}.empty.runnable_unchanged", {"C09"}, "post")
            return "return (nothing running)"
        D, R2 = w["D"], w["R2"]
        if not isinstance(r2, SSet):
            raise ContractBindError("second return value is not the set of still running futures")
        fm = futures.fwd
        dn = lambda t: z3.And(fm.dom[t], D.mem(fm.val[t]))  # noqa: E731
        S.running[kind] = r2
        if ru2 is not runnable:
            S.runnable = sym.as_set(ru2, Id)
        C.check(z3.ForAll([f_], r2.mem(f_) == R2.mem(f_)), f"{pre}.running_is_not_done_part", {"C03", "C04", "C08"}, "post")
        C.check(r2.c == R2.c, f"{pre}.running_card", {"C04", "C09"}, "post")
        C.check(z3.ForAll([x], graph.N[x] == z3.And(snap["G0"][x], z3.Not(dn(x)))), f"{pre}.graph_minus_done", {"C02", "C03", "C09"}, "post")
        C.check(graph.cN == snap["cG0"] - D.c, f"{pre}.graph_card", {"C09"}, "post")
        C.check(z3.ForAll([x], S.finished[x] == z3.Or(snap["fin0"][x], dn(x))), f"{pre}.finished_plus_done", {"C03"}, "post")
        C.check(z3.ForAll([f_], z3.Implies(D.mem(f_), S.checked[f_])), f"{pre}.C14.every_done_future_was_asked_for_its_exception", {"C14"}, "post")
        C.check(z3.And(S.started == snap["started"], S.skipped == snap["skipped"], S.pend == snap["pend"], S.cPend == snap["cPend"]), f"{pre}.ghost_frame", {"C03"}, "post")
        C.check(z3.ForAll([x], z3.Implies(z3.Not(old_infl(x)), z3.And(S.results.dom[x] == snap["rd"][x], S.results.val[x] == snap["rv"][x]))), f"{pre}.results_stable_part_untouched", {"C15", "C02"}, "post")
        for name, goal, serves in S.inv_mid():
            C.check(goal, f"{pre}.{name}", serves, "post")
        if isinstance(d2, SSet) and isinstance(done, SSet):
            C.check(z3.ForAll([f_], d2.mem(f_) == z3.Or(done.mem(f_), D.mem(f_))), f"{pre}.done_accumulates", set(), "post")
        # frame: only graph, runnable (and ghost) may be mutated
        for pid, p in C.mutated.items():
            if p is graph or p is runnable or p is S.runnable:
                continue
            if getattr(p, "_serial", 0) > snap_serial[0]:
                continue
            raise ContractBindError(f"{self.qualname} mutates {getattr(p, 'name', p)}")
        return "return"


snap_serial = [0]


def make_symbolic_state():
    """an arbitrary state of one execution (all proxies fresh, nothing assumed except sort/cardinality facts)"""
    S = Sched()
    S.graph = SGraph(name="graph")
    S.G0 = C.fresh("G_entry", sym.SetSort(Id))
    S.results = SMap.fresh("results", Id, Val, strict=True)
    S.dom0 = C.fresh("dom0", sym.SetSort(Id))
    S.val0 = C.fresh("val0", z3.ArraySort(Id, Val))
    S.profiles = SMap.fresh("profiles", Id, Val, strict=True)
    S.runnable = SSet.fresh("runnable", Id)
    for k in Sched.KINDS:
        S.running[k] = SSet.fresh(f"{k}_running", Fut)
        bd = SBiDict(f"{k}_futures")
        bd.havoc()
        S.futures[k] = bd
    S.havoc_ghost()
    C.assume(S.static_axioms())
    snap_serial[0] = C.next_serial()
    return S


# ====================================================================================================================
# async_execute
# ====================================================================================================================
from contracts.digraph_sched import SDiGraphEx  # noqa: E402


class SResults(SMap):
    """the per-execution results map"""

    def clone(self):
        m = SResults(self.ks, self.vs, self.dom, self.val, self.strict, self.default, self.on_missing, self.name, self.cdom)
        return m


def _on_remove_root(self, h):
    """ghost effect of `graph.remove_root_node(h)` called by the scheduler itself: a node that leaves the graph
    without having been started is *deactivated* (skipped)"""
    S = self.S
    unstarted = z3.Not(S.started[h])
    rd, rv = S.results_before_write
    C.check(z3.Implies(unstarted, z3.Not(ACTIVE(rd, rv, h))), "async_execute.skip.C10.only_inactive_nodes_leave_the_graph_unexecuted", {"C10", "C03"}, "assert")
    C.check(z3.Implies(unstarted, z3.And(S.Sel[h], S.graph.N[h])), "async_execute.skip.C03.skipped_node_is_selected", {"C03", "C10"}, "assert")
    C.check(z3.Implies(S.started[h], S.finished[h]), "async_execute.remove.C02.started_node_leaves_the_graph_only_when_finished", {"C02", "C03"}, "assert")
    C.check(z3.Implies(unstarted, z3.Or(z3.Not(S.results.dom[h]), S.results.val[h] == none)), "async_execute.skip.C10.deactivated_node_reads_as_None", {"C10"}, "assert")
    S.skipped = z3.Store(S.skipped, h, z3.Or(S.skipped[h], unstarted))
    S.cPend = S.cPend - z3.If(S.pend[h], 1, 0)
    S.pend = z3.Store(S.pend, h, False)


SchedHooks.on_remove_root = _on_remove_root


class SExecutor(sym.Sym):
    def __init__(self, max_workers=None, **kw):
        S = C.ghost["S"]
        if max_workers is None:
            raise ContractBindError("ThreadPoolExecutor without max_workers")
        C.check(sym.ti(max_workers) == S.maxc, "async_execute.pool.C04.max_workers_is_max_concurrency", {"C04"}, "assert")
        S.executor = self
        self.entered = self.exited = False

    def __enter__(self):
        self.entered = True
        return self

    def submit(self, fn, *a, **k):
        return C.ghost["hooks"].submit(self, fn, *a, **k)

    def __exit__(self, *a):
        S = C.ghost["S"]
        C.check(S.n_inflight() == 0, "async_execute.pool_exit.C17.nothing_in_flight", {"C17", "C09"}, "assert")
        self.exited = True
        return False


class AsyncExecute:
    module = "tawazi._dag.helpers"
    qualname = "async_execute"

    def __init__(self):
        self.loops = {0: self.Loop()}

    class Loop(LoopSpec):
        carried = ("async_done", "async_running", "runnable_xns_ids", "conc_done", "conc_running")
        NAMES = dict(graph="graph", results="results", profiles="profiles", conc_futures="conc_futures", async_futures="async_futures")

        def bind(self, env):
            S = C.ghost["S"]
            need = ["graph", "results", "profiles", "conc_futures", "async_futures", "conc_running", "async_running", "runnable_xns_ids", "exec_nodes", "max_concurrency"]
            for n in need:
                if n not in env:
                    raise ContractBindError(f"async_execute: local variable '{n}' not found at the loop head")
            first = S.results is None
            if env["graph"] is not S.graph:
                raise ContractBindError("async_execute: `graph` was re-bound")
            if first:
                if not isinstance(env["results"], SMap) or env["results"] is C.ghost["results0"]:
                    raise ContractBindError("async_execute: `results` at the loop head is not a private copy")
                S.results, S.profiles = env["results"], env["profiles"]
                S.futures["conc"], S.futures["async"] = env["conc_futures"], env["async_futures"]
                if not (isinstance(S.futures["conc"], SBiDict) and isinstance(S.futures["async"], SBiDict)):
                    raise ContractBindError("async_execute: futures maps are not BiDicts")
                S.pend, S.cPend = S.graph.N, S.graph.cN  # ghost initialisation: pending = graph - started(= {})
            else:
                for n, o in (("results", S.results), ("profiles", S.profiles), ("conc_futures", S.futures["conc"]), ("async_futures", S.futures["async"])):
                    if env[n] is not o:
                        raise ContractBindError(f"async_execute: `{n}` was re-bound inside the loop")
            S.running["conc"], S.running["async"] = sym.as_set(env["conc_running"], Fut), sym.as_set(env["async_running"], Fut)
            if env["conc_running"] is not S.running["conc"] or env["async_running"] is not S.running["async"]:
                raise ContractBindError("async_execute: running sets are not sets")
            S.runnable = env["runnable_xns_ids"]
            if not isinstance(S.runnable, SSet):
                raise ContractBindError("async_execute: runnable_xns_ids is not a set")
            return S

        def modifies(self, env):
            S = C.ghost["S"]
            return [S.graph, S.results, S.profiles, S.futures["conc"], S.futures["async"]]

        def rebind(self, env):
            new = dict(
                async_done=SSet.fresh("async_done", Fut), async_running=SSet.fresh("async_running", Fut),
                conc_done=SSet.fresh("conc_done", Fut), conc_running=SSet.fresh("conc_running", Fut),
                runnable_xns_ids=SSet.fresh("runnable", Id),
            )
            return new

        def ghost_havoc(self, env, st):
            S = C.ghost["S"]
            S.havoc_ghost()
            S.async_wait_blocked = False
            S.results_before_write = (S.results.dom, S.results.val)
            C.assume(S.lemma_L1())

        def inv(self, env, st):
            return self.bind(env).inv_head()

        def variant(self, env, st):
            return C.ghost["S"].variant()

    def namespace(self):
        def copy_stub(o):
            if o is C.ghost.get("results0"):
                return C.ghost["results0"].clone()
            if isinstance(o, SMap):
                return o.clone()
            raise Unsupported(f"copy of {type(o).__name__}")

        def strictdict_stub(*a):
            if a:
                raise Unsupported("StrictDict(args)")
            return SMap.empty(Id, Val, strict=True, name="profiles")

        def copy_non_setup_xns_stub(xns):
            # contract of copy_non_setup_xns (contracts/values.py): fresh map, same domain, field-wise equal nodes
            if not isinstance(xns, SXnMap):
                raise ContractBindError("copy_non_setup_xns: not the node table")
            return SXnMap(xns.dom, name="exec_nodes_copy")

        def to_thread_stub(func, executor, *a, **k):
            return SAwaitable(lambda: (_ for _ in ()).throw(Unsupported("direct await of to_thread_in_executor")), what="to_thread_in_executor", func=func, executor=executor, args=a, kwargs=k)

        class _Asyncio:
            @staticmethod
            def ensure_future(aw):
                return C.ghost["hooks"].ensure_future(aw)

        def wait_conc(rw, graph, futures, done, running, runnable):
            return wait_stub_effect(C.ghost["S"], "conc", rw, graph, futures, done, running, runnable, fn="wait_for_finished_nodes")

        def wait_async(rw, graph, futures, done, running, runnable):
            return SAwaitable(lambda: wait_stub_effect(C.ghost["S"], "async", rw, graph, futures, done, running, runnable, fn="wait_for_finished_nodes_async"))

        def active_stub(xn, results):
            S = C.ghost["S"]
            if not isinstance(xn, SXn) or results is not S.results:
                raise ContractBindError("_xn_active_in_call: unexpected arguments")
            h = xn._x
            C.check(z3.Implies(has_act(h), z3.Not(S.infl(act_id(h)))), "async_execute.activation.C02.flag_not_in_flight", {"C02", "C10"}, "assert")
            S.results_before_write = (S.results.dom, S.results.val)
            return SBool(ACTIVE(S.results.dom, S.results.val, h))

        return {
            "copy": copy_stub, "StrictDict": strictdict_stub, "copy_non_setup_xns": copy_non_setup_xns_stub,
            "BiDict": lambda: SBiDict("futures"), "ThreadPoolExecutor": SExecutor, "asyncio": _Asyncio,
            "to_thread_in_executor": to_thread_stub, "wait_for_finished_nodes": wait_conc,
            "wait_for_finished_nodes_async": wait_async, "_xn_active_in_call": active_stub,
        }

    def run(self, f, case):
        S = Sched()
        graph = SDiGraphEx(name="graph")
        S.graph, S.G0 = graph, graph.N
        graph.remove_root_node = lambda r: (C.ghost["hooks"].on_remove_root(r.t), RemoveRootNode.stub(graph, r))[1]
        results0 = SResults(Id, Val, C.fresh("dom0", sym.SetSort(Id)), C.fresh("val0", z3.ArraySort(Id, Val)), strict=True, name="results")
        S.dom0, S.val0 = results0.dom, results0.val
        S.results_before_write = (results0.dom, results0.val)
        xns0 = SXnMap(S.xn_dom)
        C.assume(S.static_axioms())
        cp0 = graph.compound_priority.val
        hooks = SchedHooks(S)
        C.ghost.update(S=S, hooks=hooks, results0=results0)
        C.mutated = {}
        try:
            r = f(exec_nodes=xns0, results=results0, max_concurrency=SInt(S.maxc), graph=graph)
        except NodeFailure as e:
            C.check(S.Sel[e.node], "async_execute.exceptional.C14.failure_of_a_selected_node", {"C14"}, "post")
            C.check(z3.And(S.started[e.node], z3.Not(S.finished[e.node])), "async_execute.exceptional.C14.failed_node_was_started_never_finished", {"C14"}, "post")
            C.check(S.graph.N[e.node], "async_execute.exceptional.C14.failed_node_stays_in_graph", {"C14"}, "post")
            self.frame(results0, xns0, cp0, graph)
            return f"raises NodeFailure({e.where})"
        if isinstance(r, SAwaitable):
            r = r.run()
        try:
            xn2, res2, prof2 = r
        except Exception:
            raise ContractBindError("async_execute does not return a 3-tuple")
        p = "async_execute.post"
        C.check(S.graph.cN == 0, f"{p}.graph_consumed", {"C09", "C03"}, "post")
        C.check(z3.ForAll([x], z3.Implies(S.Sel[x], z3.Or(S.finished[x], S.skipped[x]))), f"{p}.C03.every_selected_node_ran_or_was_deactivated", {"C03", "C09", "C12"}, "post")
        C.check(z3.ForAll([x], z3.Implies(z3.Or(S.started[x], S.skipped[x]), S.Sel[x])), f"{p}.C03.nothing_else_ran", {"C03", "C12", "C11"}, "post")
        C.check(z3.ForAll([x], z3.Implies(S.finished[x], S.started[x])), f"{p}.C03.finished_were_started", {"C03"}, "post")
        C.check(S.n_inflight() == 0, f"{p}.C09.nothing_in_flight", {"C09", "C17"}, "post")
        if res2 is not S.results:
            raise ContractBindError("async_execute returns another results map than the one it filled")
        C.check(z3.ForAll([x], z3.Implies(S.results.dom[x], z3.Or(S.dom0[x], S.Sel[x]))), f"{p}.results_only_for_given_or_selected", {"C03", "C12", "C11"}, "post")
        C.check(z3.ForAll([x], z3.Implies(z3.Or(S.dom0[x], S.finished[x]), S.results.dom[x])), f"{p}.results_of_given_and_executed_present", {"C01", "C02", "C18", "C11"}, "post")
        C.check(z3.ForAll([x], z3.Implies(S.dom0[x], S.results.val[x] == S.val0[x])), f"{p}.given_results_unchanged", {"C01", "C11", "C15", "C18"}, "post")
        C.check(z3.ForAll([x], z3.Implies(z3.And(S.skipped[x], S.results.dom[x]), S.results.val[x] == none)), f"{p}.C10.deactivated_yield_None", {"C10"}, "post")
        if S.executor is None or not S.executor.exited:
            C.check(z3.BoolVal(False), f"{p}.C17.pool_closed", {"C17"}, "post")
        if not isinstance(xn2, SXnMap) or xn2 is xns0:
            raise ContractBindError("async_execute must return its private copy of the node table")
        self.frame(results0, xns0, cp0, graph)
        return "return"

    def frame(self, results0, xns0, cp0, graph):
        S = C.ghost["S"]
        C.check(z3.And(results0.dom == S.dom0, results0.val == S.val0), "async_execute.frame.C15.caller_results_untouched", {"C15", "C16", "C11"}, "frame")
        for pid, p_ in C.mutated.items():
            if p_ is results0 or p_ is xns0:
                C.check(z3.BoolVal(False), "async_execute.frame.C15.inputs_not_mutated", {"C15", "C16"}, "frame")
        C.check(graph.compound_priority.val == cp0, "async_execute.frame.C06.priority_table_untouched", {"C06"}, "frame")
