"""Contracts of the small value-level functions: _xn_active_in_call, UsageExecNode.result / __getitem__,
get_return_values, extend_results_with_args, copy_non_setup_xns, to_thread_in_executor, sync_execute, StrictDict,
BiDict.  Their post-conditions are the *summary contracts* the scheduler / DAG-protocol proofs assume."""
import z3

from contracts.dagproto import in_id
from contracts.model import ACTIVE, VAL, SUxn, SXn, SXnMap, has_act, act_id, act_key, is_setup
from pyvc import sym
from pyvc.core import C, ContractBindError, Unsupported
from pyvc.engine import LoopSpec, SAwaitable
from pyvc.sym import (B, Fut, I, Id, Key, KPath, SBool, SId, SInt, SIter, SMap, SSeq, SSet, STerm, SVal, Sym, Val, bv, getitem, getpath, kp_append, kp_empty, none, term, truthy)

x = bv("x!v", Id)


class _Hooks:
    def uxn_result(self, uxn, results):
        return SVal(VAL(results.dom, results.val, uxn._i, uxn._k))


class XnActiveInCall:
    module = "tawazi._dag.helpers"
    qualname = "_xn_active_in_call"
    loops = {}

    def run(self, f, case):
        C.ghost.update(hooks=_Hooks())
        h = C.fresh("h", Id)
        results = SMap.fresh("results", Id, Val, strict=True)
        d0, v0 = results.dom, results.val
        r = f(SXn(h), results)
        rt = sym.tb(r) if not isinstance(r, bool) else z3.BoolVal(r)
        C.check(rt == ACTIVE(d0, v0, h), "_xn_active_in_call.post.C10.truthiness_of_the_flag_after_its_key_path", {"C10", "C03", "C12"}, "post")
        C.check(z3.And(results.dom == d0, results.val == v0), "_xn_active_in_call.frame.pure", {"C15"}, "frame")
        return "return"


class SKeyList(Sym):
    """UsageExecNode.key: a list of keys viewed as a key path"""

    def __init__(self, p):
        self.p = p

    def append(self, k):
        self.p = kp_append(self.p, sym.tkey(k))
        C.mutated[id(self)] = self


class SUxnRec(Sym):
    """a UsageExecNode as `self` of its own methods: fields id, key"""

    def __init__(self, i, p):
        self.id = SId(i)
        self.key = SKeyList(p)

    def _vc_deepcopy(self):
        return SUxnRec(self.id.t, self.key.p)


def reduce_stub(fn, seq, init):
    """TRUSTED contract of functools.reduce = foldl.  Over a key path: if fn(o, k) is o[k] then the fold of the path
    is getpath (definition of getpath, val_axioms)."""
    if not isinstance(seq, SKeyList):
        raise Unsupported("reduce over something else than a key path")
    o, k = bv("o!r", Val), bv("k!r", Key)
    with sym.Binder(o):
        step = fn(SVal(o), STerm(k))
    if not (isinstance(step, SVal) and z3.eq(z3.simplify(step.t), z3.simplify(getitem(o, k)))):
        raise Unsupported("reduce step is not obj.__getitem__(key)")
    it = term(init, Val)
    # known finding KF-C10-index: `None.__getitem__` raises AttributeError (the model's getitem is total)
    C.check(z3.Implies(it == none, seq.p == kp_empty), "uxn_result.post.C10.none_is_indexable", {"C10"}, "assert",
            note="a deactivated node's None result indexed by a non-empty key path raises AttributeError instead of yielding None")
    return SVal(getpath(it, seq.p))


class SValObj(SVal):
    def __getattr__(self, name):
        if name == "__getitem__":
            return lambda k: SVal(getitem(self.t, sym.tkey(k)))
        raise AttributeError(name)


class UxnResult:
    module = "tawazi.node.uxn"
    qualname = "UsageExecNode.result"
    loops = {}

    def namespace(self):
        def reduce_(fn, seq, init):
            return reduce_stub(lambda o_, k_: fn(SValObj(o_.t), k_), seq, init)

        return {"reduce": reduce_}

    def run(self, f, case):
        i, p = C.fresh("id", Id), C.fresh("key", KPath)
        results = SMap.fresh("results", Id, Val, strict=False, on_missing="raise")
        d0, v0 = results.dom, results.val
        try:
            r = f(SUxnRec(i, p), results)
        except KeyError:
            # the results map was read at an absent id: the property says a node that has not run reads as None
            C.check(z3.BoolVal(False), "uxn_result.exceptional.C12.no_KeyError_for_a_node_that_has_not_run", {"C01", "C12", "C10"}, "post")
            return "raise"
        C.check(term(r, Val) == VAL(d0, v0, i, p), "uxn_result.post.C01.value_after_key_path_or_None_if_absent", {"C01", "C02", "C12", "C10"}, "post")
        C.check(z3.And(results.dom == d0, results.val == v0), "uxn_result.frame.pure", {"C15"}, "frame")
        return "return"


class UxnGetitem:
    module = "tawazi.node.uxn"
    qualname = "UsageExecNode.__getitem__"
    loops = {}

    def namespace(self):
        def deepcopy(o):
            if hasattr(o, "_vc_deepcopy"):
                return o._vc_deepcopy()
            raise Unsupported("deepcopy")

        return {"deepcopy": deepcopy}

    def run(self, f, case):
        i, p, k = C.fresh("id", Id), C.fresh("key", KPath), C.fresh("k", Key)
        me = SUxnRec(i, p)
        r = f(me, STerm(k))
        if not isinstance(r, SUxnRec) or r is me:
            C.check(z3.BoolVal(False), "uxn_getitem.post.C01.new_usage_object", {"C01"}, "post")
            return "return"
        C.check(z3.And(r.id.t == i, r.key.p == kp_append(p, k)), "uxn_getitem.post.C01.same_node_key_appended", {"C01", "C02"}, "post")
        C.check(z3.And(me.id.t == i, me.key.p == p), "uxn_getitem.frame.C01.original_usage_untouched", {"C01", "C15"}, "frame")
        return "return"


# ---- extend_results_with_args ------------------------------------------------------------------------------------
argval = z3.Function("argval", I, Val)


class ExtendResultsWithArgs:
    module = "tawazi._dag.helpers"
    qualname = "extend_results_with_args"

    def __init__(self):
        self.loops = {0: self.Loop()}

    class Loop(LoopSpec):
        carried = ()

        def modifies(self, env):
            r = env.get("results")
            if not isinstance(r, SMap) or r is C.ghost["results0"]:
                raise ContractBindError("extend_results_with_args must write the arguments into a private copy of the results")
            return [r]

        def inv(self, env, st):
            r, r0 = env["results"], C.ghost["results0"]
            i = bv("i!x", I)
            seen_arg = lambda t: z3.Exists([i], z3.And(st.seen[i], in_id(i) == t))  # noqa: E731
            return [
                ("seen_arguments_bound", z3.ForAll([i], z3.Implies(st.seen[i], z3.And(r.dom[in_id(i)], r.val[in_id(i)] == argval(i)))), {"C01", "C15"}),
                ("others_as_given", z3.ForAll([x], z3.Implies(z3.Not(seen_arg(x)), z3.And(r.dom[x] == r0.dom[x], z3.Implies(r0.dom[x], r.val[x] == r0.val[x])))), {"C01", "C15"}),
            ]

    def namespace(self):
        def copy(o):
            if isinstance(o, SMap):
                return o.clone()
            raise Unsupported("copy")

        return {"copy": copy}

    def run(self, f, case):
        results0 = SMap.fresh("results", Id, Val, strict=True)
        d0, v0 = results0.dom, results0.val
        n_in, nargs = C.fresh("n_inputs", I), C.fresh("nargs", I)
        i, j = bv("i!x", I), bv("j!x", I)
        C.assume(n_in >= 0, nargs >= 0)
        C.assume(z3.ForAll([i, j], z3.Implies(z3.And(i >= 0, i < n_in, j >= 0, j < n_in, i != j), in_id(i) != in_id(j))))  # inputs are distinct table keys
        input_uxns = SSeq(n_in, lambda k: SUxn(in_id(k), kp_empty), list, "input_uxns")
        args = SSeq(nargs, lambda k: SVal(argval(k)), tuple, "args")
        C.ghost.update(results0=results0)
        C.mutated = {}
        try:
            r = f(results0, input_uxns, args)
        except TypeError:
            C.check(nargs > n_in, "extend_results_with_args.exceptional.TypeError_iff_too_many_arguments", {"C14", "C01"}, "post")
            C.check(z3.And(results0.dom == d0, results0.val == v0), "extend_results_with_args.exceptional.C15.given_results_untouched", {"C15"}, "frame")
            return "raises TypeError"
        C.check(nargs <= n_in, "extend_results_with_args.post.too_many_arguments_are_refused", {"C14", "C01"}, "post")
        if not isinstance(r, SMap):
            raise ContractBindError("extend_results_with_args does not return a results map")
        C.check(z3.BoolVal(r is not results0), "extend_results_with_args.post.C15.returns_a_copy", {"C15", "C16", "C17"}, "post")
        is_arg = lambda t: z3.Exists([i], z3.And(i >= 0, i < nargs, in_id(i) == t))  # noqa: E731
        C.check(z3.ForAll([i], z3.Implies(z3.And(i >= 0, i < nargs), z3.And(r.dom[in_id(i)], r.val[in_id(i)] == argval(i)))), "extend_results_with_args.post.C01.argument_i_bound_to_input_i", {"C01", "C15", "C17"}, "post")
        C.check(z3.ForAll([x], z3.Implies(z3.Not(is_arg(x)), z3.And(r.dom[x] == d0[x], z3.Implies(d0[x], r.val[x] == v0[x])))), "extend_results_with_args.post.C01.other_keys_as_given", {"C01", "C15", "C11"}, "post")
        C.check(z3.And(results0.dom == d0, results0.val == v0), "extend_results_with_args.frame.C15.given_results_untouched", {"C15", "C16", "C17"}, "frame")
        return "return"


# ---- to_thread_in_executor / sync_execute ---------------------------------------------------------------------------
class _Token(Sym):
    def __init__(self, what):
        self.what = what


class ToThreadInExecutor:
    module = "tawazi._dag.helpers"
    qualname = "to_thread_in_executor"
    loops = {}

    def namespace(self):
        g = C.ghost

        class _Ctx(Sym):
            def run(self, *a, **k):
                raise Unsupported("ctx.run called directly")

        class _Loop(Sym):
            def run_in_executor(self, executor, call):
                C.ghost["rie"].append((executor, call))

                def run():
                    C.ghost["awaited"].append(call)
                    return _Token("result of func")

                return SAwaitable(run)

        class _Asyncio:
            @staticmethod
            def get_running_loop():
                return _Loop()

        class _Contextvars:
            @staticmethod
            def copy_context():
                c = _Ctx()
                C.ghost["ctx"].append(c)
                return c

        class _Functools:
            @staticmethod
            def partial(fn, *a, **k):
                p = dict(fn=fn, a=a, k=k)
                C.ghost["partials"].append(p)
                return p

        return {"asyncio": _Asyncio, "contextvars": _Contextvars, "functools": _Functools}

    def run(self, f, case):
        C.ghost.update(rie=[], awaited=[], ctx=[], partials=[])
        func, ex = _Token("func"), _Token("executor")
        a1, k1 = SVal(C.fresh("a", Val)), SVal(C.fresh("k", Val))
        r = f(func, ex, (a1,), kwargs={"results": k1})
        n = "to_thread_in_executor.post"
        g = C.ghost
        ok_submit = len(g["rie"]) == 1 and g["rie"][0][0] is ex
        C.check(z3.BoolVal(ok_submit), f"{n}.C04.submits_to_the_given_executor_once", {"C04", "C17"}, "post")
        call = g["rie"][0][1] if g["rie"] else None
        ok_call = isinstance(call, dict) and getattr(call["fn"], "__self__", None) in g["ctx"] and call["a"][:1] == (func,) and call["a"][1:] == (a1,) and call["k"] == {"results": k1}
        C.check(z3.BoolVal(bool(ok_call)), f"{n}.C01.runs_func_with_the_given_arguments_in_a_copy_of_the_context", {"C01", "C02"}, "post")
        C.check(z3.BoolVal(isinstance(r, _Token) and len(g["awaited"]) == 1), f"{n}.C02.completes_only_when_func_has_completed", {"C02", "C01", "C14", "C17", "C09"}, "post",
                note="the coroutine must await the pool future: otherwise its task is 'done' while the node is still running")
        return "return"


class SyncExecute:
    module = "tawazi._dag.helpers"
    qualname = "sync_execute"
    loops = {}

    def namespace(self):
        def async_execute(**k):
            C.ghost["calls"].append(k)
            return SAwaitable(lambda: _Token("result of async_execute"))

        class _Asyncio:
            @staticmethod
            def run(aw):
                if not isinstance(aw, SAwaitable):
                    raise ContractBindError("asyncio.run of something else than the scheduler coroutine")
                C.ghost["ran"].append(aw)
                return aw.run()

        return {"async_execute": async_execute, "asyncio": _Asyncio}

    def run(self, f, case):
        C.ghost.update(calls=[], ran=[])
        a = {n: _Token(n) for n in ("exec_nodes", "results", "max_concurrency", "graph")}
        r = f(a["exec_nodes"], a["results"], a["max_concurrency"], a["graph"])
        ok = len(C.ghost["calls"]) == 1 and C.ghost["calls"][0] == a and isinstance(r, _Token)
        C.check(z3.BoolVal(ok), "sync_execute.post.C17.drives_the_same_scheduler_coroutine_with_the_same_arguments", {"C17", "C01", "C04"}, "post")
        return "return"


# ---- StrictDict / BiDict -----------------------------------------------------------------------------------------------
class SDictSelf(Sym):
    """`self` of a dict subclass method: dict primitives on `m`; super() gives the plain-dict operations"""

    def __init__(self, m):
        self.m = m

    def _vc_contains(self, k):
        return self.m._vc_contains(k)

    def __getitem__(self, k):
        return self.m[k]

    def items(self):
        return self.m.items()

    def _vc_super(self):
        outer = self

        class _S:
            def __setitem__(self, k, v):
                outer.m._set(term(k), term(v, outer.m.vs))

            def __delitem__(self, k):
                outer.m.__delitem__(k)

            def __init__(self, *a, **k):
                pass

        return _S()


class StrictDictSetitem:
    module = "tawazi._helpers"
    qualname = "StrictDict.__setitem__"
    loops = {}

    def run(self, f, case):
        m = SMap.fresh("d", Id, Val, on_missing="raise")
        d0, v0 = m.dom, m.val
        k, v = C.fresh("k", Id), C.fresh("v", Val)
        try:
            f(SDictSelf(m), SId(k), SVal(v))
        except KeyError:
            C.check(d0[k], "StrictDict.__setitem__.exceptional.C03.KeyError_iff_key_occupied", {"C03", "C11", "C14"}, "post")
            C.check(z3.And(m.dom == d0, m.val == v0), "StrictDict.__setitem__.exceptional.unchanged", {"C03"}, "post")
            return "raises KeyError"
        C.check(z3.Not(d0[k]), "StrictDict.__setitem__.post.C03.an_occupied_key_is_refused", {"C03", "C11", "C14"}, "post")
        C.check(z3.And(m.dom == z3.Store(d0, k, True), m.val == z3.Store(v0, k, v)), "StrictDict.__setitem__.post.sets_exactly_this_key", {"C03", "C01"}, "post")
        return "return"


class BiDictSetitem:
    module = "tawazi._dag.helpers"
    qualname = "BiDict.__setitem__"
    loops = {}

    def run(self, f, case):
        fwd = SMap.fresh("fwd", Id, Fut, on_missing="obligation")
        inv = SMap.fresh("inverse", Fut, Id, on_missing="obligation")
        xx, ff = bv("x!b", Id), bv("f!b", Fut)
        ci = lambda F, V: [  # noqa: E731
            z3.ForAll([xx], z3.Implies(F.dom[xx], z3.And(V.dom[F.val[xx]], V.val[F.val[xx]] == xx))),
            z3.ForAll([ff], z3.Implies(V.dom[ff], z3.And(F.dom[V.val[ff]], F.val[V.val[ff]] == ff))),
        ]
        C.assume(ci(fwd, inv))
        me = SDictSelf(fwd)
        me.inverse = inv
        k, v = C.fresh("k", Id), C.fresh("v", Fut)
        d0, iv0 = fwd.dom, inv.dom
        other = z3.And(inv.dom[v], z3.Not(z3.And(fwd.dom[k], fwd.val[k] == v)))  # v is the image of another key
        try:
            f(me, SId(k), SFutT(v))
        except ValueError:
            C.check(other, "BiDict.__setitem__.exceptional.C14.ValueError_iff_value_mapped_by_another_key", {"C14"}, "post")
            return "raises ValueError"
        C.check(z3.Not(other), "BiDict.__setitem__.post.C14.duplicate_value_refused", {"C14"}, "post")
        for n_, g_ in zip(("fwd", "inv"), ci(fwd, inv)):
            C.check(g_, f"BiDict.__setitem__.post.class_invariant.{n_}", {"C14", "C03"}, "post")
        C.check(z3.And(fwd.dom[k], fwd.val[k] == v), "BiDict.__setitem__.post.maps_key_to_value", {"C14", "C03"}, "post")
        return "return"


class SFutT(sym.SFut):
    pass


# ---- copy_non_setup_xns ----------------------------------------------------------------------------------------------
class CopyNonSetupXns:
    module = "tawazi._dag.helpers"
    qualname = "copy_non_setup_xns"

    def __init__(self):
        self.loops = {0: self.Loop()}

    class Loop(LoopSpec):
        carried = ()

        def modifies(self, env):
            c = env.get("x_nodes_copy")
            if not isinstance(c, SMap):
                raise ContractBindError("copy_non_setup_xns: x_nodes_copy is not a fresh StrictDict")
            return [c]

        def inv(self, env, st):
            c = env["x_nodes_copy"]
            return [
                ("domain_is_seen", z3.ForAll([x], c.dom[x] == st.seen[x]), {"C03", "C14"}),
                ("same_node_under_each_key", z3.ForAll([x], z3.Implies(st.seen[x], node_id_of(c.val[x]) == x)), {"C01", "C15"}),
                ("setup_nodes_shared_others_copied", z3.ForAll([x], z3.Implies(st.seen[x], is_copy(c.val[x]) == z3.Not(is_setup(x)))), {"C11", "C15"}),
            ]

    def namespace(self):
        def strictdict():
            m = SMap.empty(Id, NodeObj, strict=True, name="x_nodes_copy")
            m.wrapv = lambda t: SXnObj(t)
            return m

        def copy(o):
            if isinstance(o, SXnObj):
                n = C.fresh("node_copy", NodeObj)
                C.assume(node_id_of(n) == node_id_of(o.t), is_copy(n))
                return SXnObj(n)
            raise Unsupported("copy")

        return {"StrictDict": strictdict, "copy": copy}

    def run(self, f, case):
        dom = C.fresh("xn_dom", sym.SetSort(Id))
        src = SMap(Id, NodeObj, dom, C.fresh("val_xns", z3.ArraySort(Id, NodeObj)), name="x_nodes")
        src.wrapv = lambda t: SXnObj(t)
        C.assume(z3.ForAll([x], z3.Implies(dom[x], z3.And(node_id_of(src.val[x]) == x, z3.Not(is_copy(src.val[x]))))))
        d0, v0 = src.dom, src.val
        r = f(src)
        if not isinstance(r, SMap) or r is src:
            C.check(z3.BoolVal(False), "copy_non_setup_xns.post.C15.fresh_table", {"C15"}, "post")
            return "return"
        C.check(z3.ForAll([x], r.dom[x] == d0[x]), "copy_non_setup_xns.post.same_keys", {"C03", "C14"}, "post")
        C.check(z3.ForAll([x], z3.Implies(d0[x], node_id_of(r.val[x]) == x)), "copy_non_setup_xns.post.C01.same_node_under_each_key", {"C01", "C15"}, "post")
        C.check(z3.ForAll([x], z3.Implies(d0[x], is_copy(r.val[x]) == z3.Not(is_setup(x)))), "copy_non_setup_xns.post.C11.setup_nodes_shared_others_copied", {"C11", "C15"}, "post")
        C.check(z3.And(src.dom == d0, src.val == v0), "copy_non_setup_xns.frame.C15.source_table_untouched", {"C15", "C16"}, "frame")
        return "return"


NodeObj = z3.DeclareSort("NodeObj")
node_id_of = z3.Function("node_id_of", NodeObj, Id)
is_copy = z3.Function("is_copy", NodeObj, B)


class SXnObj(STerm):
    """an ExecNode *object* (identity matters: shared vs copied)"""

    @property
    def setup(self):
        return SBool(is_setup(node_id_of(self.t)))


# ---- get_return_values -----------------------------------------------------------------------------------------------
ret_id = z3.Function("ret_id", I, Id)
ret_key = z3.Function("ret_key", I, KPath)


class GetReturnValues:
    module = "tawazi._dag.helpers"
    qualname = "get_return_values"
    loops = {}

    def cases(self):
        return ["None", "single", "tuple", "list", "dict", "other"]

    def run(self, f, case):
        from tawazi.errors import TawaziTypeError

        C.ghost.update(hooks=_Hooks())
        results = SMap.fresh("results", Id, Val, strict=True)
        d0, v0 = results.dom, results.val
        n = C.fresh("n_returns", I)
        C.assume(n >= 0)
        i = bv("i!g", I)
        mk = lambda k: SUxn(ret_id(k), ret_key(k))  # noqa: E731
        ru = {"None": None, "single": mk(z3.IntVal(0)), "tuple": SSeq(n, mk, tuple, "return_uxns"), "list": SSeq(n, mk, list, "return_uxns"),
              "dict": SRetDict(n, mk), "other": 42}[case]
        p = "get_return_values.post.C01"
        try:
            r = f(ru, results)
        except TawaziTypeError:
            C.check(z3.BoolVal(case == "other"), "get_return_values.exceptional.TawaziTypeError_only_for_unsupported_shapes", {"C01", "C14"}, "post")
            return "raises TawaziTypeError"
        C.check(z3.BoolVal(case != "other"), "get_return_values.post.unsupported_shape_is_refused", {"C01"}, "post")
        exp = lambda k: VAL(d0, v0, ret_id(k), ret_key(k))  # noqa: E731
        if case == "None":
            C.check(z3.BoolVal(r is None), f"{p}.None_for_None", {"C01", "C12"}, "post")
        elif case == "single":
            C.check(term(r, Val) == exp(z3.IntVal(0)), f"{p}.single_value", {"C01", "C12", "C17"}, "post")
        elif case in ("tuple", "list"):
            okshape = isinstance(r, SSeq) and r.kind is (tuple if case == "tuple" else list)
            C.check(z3.BoolVal(okshape), f"{p}.same_container_type", {"C01"}, "post")
            if okshape:
                C.check(r.n == n, f"{p}.same_length", {"C01", "C12"}, "post")
                C.check(z3.ForAll([i], z3.Implies(z3.And(i >= 0, i < n), term(r.at(i), Val) == exp(i))), f"{p}.element_i_is_value_of_reference_i", {"C01", "C12", "C17"}, "post")
        elif case == "dict":
            ok = isinstance(r, SMap)
            C.check(z3.BoolVal(ok), f"{p}.dict_for_dict", {"C01"}, "post")
            if ok:
                C.check(z3.ForAll([i], r.dom[i] == z3.And(i >= 0, i < n)), f"{p}.same_keys", {"C01"}, "post")
                C.check(z3.ForAll([i], z3.Implies(z3.And(i >= 0, i < n), r.val[i] == exp(i))), f"{p}.value_of_each_key", {"C01", "C12"}, "post")
        C.check(z3.And(results.dom == d0, results.val == v0), "get_return_values.frame.pure", {"C15"}, "frame")
        return "return"


class SRetDict(Sym):
    """Dict[str, UsageExecNode]: keys abstracted to indices 0..n-1"""

    def __init__(self, n, mk):
        self.n, self.mk = n, mk

    def _vc_isinstance(self, cls):
        classes = cls if isinstance(cls, tuple) else (cls,)
        return dict in classes

    def items(self):
        return SIter(I, lambda i: z3.And(i >= 0, i < self.n), lambda i: (SInt(i), self.mk(i)), count=self.n)
