"""Contracts of tawazi/_decorators.py: @xn hands the declared scheduling attributes (priority, is_sequential, debug,
tag, setup, unpack_to, resource) to the node unchanged; @dag hands max_concurrency / is_async to threadsafe_make_dag.
The attributes are what C04 / C05 / C06 / C11 / C13 quantify over ("a node declared is_sequential ...")."""
import z3

from pyvc.core import C
from pyvc.sym import Sym


class _Tok(Sym):
    def __init__(self, name):
        self.name = name


class XnDecorator:
    module = "tawazi._decorators"
    qualname = "xn"
    loops = {}

    def cases(self):
        return ["with-arguments", "bare"]

    def run(self, f, case):
        made, wrapped = [], []

        def lazy(**kw):
            made.append(kw)
            return "THE-NODE"

        class _FT:
            @staticmethod
            def update_wrapper(a, b):
                wrapped.append((a, b))

        def fn():
            return None

        opts = dict(priority=_Tok("priority"), is_sequential=_Tok("is_sequential"), debug=_Tok("debug"), tag=_Tok("tag"), setup=_Tok("setup"), unpack_to=_Tok("unpack_to"), resource=_Tok("resource"))
        f.__globals__.update({"LazyExecNode": lazy, "functools": _FT})
        if case == "with-arguments":
            deco = f(None, **opts)
            r = deco(fn)
        else:
            r = f(fn, **opts)
        ok = r == "THE-NODE" and len(made) == 1 and made[0] == dict(opts, exec_function=fn) and all(made[0][k] is v for k, v in opts.items())
        C.check(z3.BoolVal(bool(ok)), "xn.post.C04.the_node_carries_exactly_the_declared_attributes_and_function", {"C01", "C04", "C05", "C06", "C11", "C13"}, "post")
        return "return"


class DagDecorator:
    module = "tawazi._decorators"
    qualname = "dag"
    loops = {}

    def cases(self):
        return ["with-arguments", "bare"]

    def run(self, f, case):
        made = []

        def tmd(fn_, mc, ia):
            made.append((fn_, mc, ia))
            return "THE-DAG"

        class _FT:
            @staticmethod
            def update_wrapper(a, b):
                pass

        def fn():
            return None

        mc, ia = _Tok("max_concurrency"), _Tok("is_async")
        f.__globals__.update({"threadsafe_make_dag": tmd, "functools": _FT})
        if case == "with-arguments":
            r = f(None, max_concurrency=mc, is_async=ia)(fn)
        else:
            r = f(fn, max_concurrency=mc, is_async=ia)
        ok = r == "THE-DAG" and len(made) == 1 and made[0][0] is fn and made[0][1] is mc and made[0][2] is ia
        C.check(z3.BoolVal(bool(ok)), "dag.post.C04.the_dag_is_built_under_the_build_lock_with_the_declared_limit_and_flavour", {"C01", "C04", "C16", "C17"}, "post")
        return "return"
