"""Contracts of the administrative part of tawazi/_dag/dag.py: BaseDAG.__post_init__, alias_to_ids,
get_multiple_nodes_aliases, _pre_setup, setup (both flavours), BaseDAGExecution.__post_init__ / results /
_post_call, config_from_dict, executor()."""
import z3

from contracts.dagproto import SCfg, SCfgRef, SDag, SExecution, SStr, execute_summary, extend_graph_with_debug_nodes_stub
from contracts.digraph import closed_form_spec, stub_make_subgraph
from contracts.digraph_sched import SDiGraphEx
from contracts.model import SUxn, SXn, SXnMap, is_setup
from contracts.scheduler import NodeFailure
from pyvc import lib, sym
from pyvc.core import C, ContractBindError, Unsupported
from pyvc.engine import LoopSpec, SAwaitable
from pyvc.sym import B, I, Id, Key, SBool, SId, SInt, SIter, SList, SMap, SSeq, SSet, STerm, SVal, Sym, Val, bv, tb, term, wrap

x = bv("x!a", Id)
Tag = z3.DeclareSort("Tag")
has_tag = z3.Function("has_tag", Id, Tag, B)  # node x carries tag t
str_is_id = z3.Function("str_is_node_id", Tag, B)  # the string is the id of a node of the DAG
str_id = z3.Function("str_as_id", Tag, Id)


# ---- BaseDAG.__post_init__ -------------------------------------------------------------------------------------------------
class PostInit:
    module = "tawazi._dag.dag"
    qualname = "BaseDAG.__post_init__"
    loops = {}

    def cases(self):
        return ["int", "not-int", "results-not-strict", "nodes-not-strict"]

    def namespace(self):
        class _DG:
            @staticmethod
            def from_exec_nodes(input_nodes=None, exec_nodes=None):
                C.ghost["fen"].append((input_nodes, exec_nodes))
                return "GRAPH"

        return {"DiGraphEx": _DG, "StrictDict": _StrictMarker}

    def run(self, f, case):
        class _Me(Sym):
            pass

        me = _Me()
        mc = C.fresh("max_concurrency", I)
        me.max_concurrency = SIntObj(mc) if case != "not-int" else "3"
        me.results = _Dict(strict=(case != "results-not-strict"))
        me.exec_nodes = _Dict(strict=(case != "nodes-not-strict"))
        me.input_uxns = "INPUTS"
        C.ghost.update(fen=[])
        n = "BaseDAG.__post_init__"
        try:
            f(me)
        except ValueError:
            C.check(z3.Or(z3.BoolVal(case != "int"), mc < 1), f"{n}.exceptional.C04.ValueError_only_for_an_invalid_max_concurrency_or_table_type", {"C04", "C14"}, "post")
            return "raises ValueError"
        C.check(z3.And(z3.BoolVal(case == "int"), mc >= 1), f"{n}.post.C04.max_concurrency_is_an_int_of_at_least_1", {"C04", "C09"}, "post")
        C.check(z3.BoolVal(C.ghost["fen"] == [("INPUTS", me.exec_nodes)] and me.graph_ids == "GRAPH"), f"{n}.post.C07.graph_built_from_the_node_table", {"C07", "C02", "C09"}, "post")
        return "return"


class SIntObj(SInt):
    def _vc_isinstance(self, cls):
        classes = cls if isinstance(cls, tuple) else (cls,)
        return int in classes


class _StrictMarker:
    pass


class _Dict(Sym):
    def __init__(self, strict):
        self.strict = strict

    def _vc_isinstance(self, cls):
        classes = cls if isinstance(cls, tuple) else (cls,)
        return self.strict and _StrictMarker in classes


# ---- alias_to_ids ---------------------------------------------------------------------------------------------------------------
class SAliasStr(STerm):
    """a str alias (tag or node id)"""

    def _vc_isinstance(self, cls):
        classes = cls if isinstance(cls, tuple) else (cls,)
        return str in classes

    def _vc_in_table(self, dom):
        return SBool(z3.And(str_is_id(self.t), dom[str_id(self.t)]))


id_as_tag = z3.Function("node_id_string_as_tag", Id, Tag)  # the id of a node is a str: it may be spelled like a tag


class SNodeIdStr(SId):
    """the id (a str) of a node that was given by reference"""

    def _vc_isinstance(self, cls):
        classes = cls if isinstance(cls, tuple) else (cls,)
        return str in classes


class SAliasNode(Sym):
    def __init__(self, i):
        self.id = SNodeIdStr(i)

    def _vc_isinstance(self, cls):
        from tawazi.node import ExecNode

        classes = cls if isinstance(cls, tuple) else (cls,)
        return ExecNode in classes


class AliasToIds:
    module = "tawazi._dag.dag"
    qualname = "BaseDAG.alias_to_ids"
    loops = {}

    def cases(self):
        return ["node", "str", "other"]

    def run(self, f, case):
        from tawazi.errors import TawaziTypeError

        dag = SDag()
        dom = dag.xn_dom
        # table invariant: tagged nodes are nodes of the DAG
        t0 = bv("t!a", Tag)
        C.assume(z3.ForAll([x, t0], z3.Implies(has_tag(x, t0), dom[x])))

        class _XnMap(SXnMap):
            def _vc_contains(self, k):
                if isinstance(k, SAliasStr):
                    return k._vc_in_table(self.dom)
                return SXnMap._vc_contains(self, k)

        dag.exec_nodes = _XnMap(dom, "dag.exec_nodes")
        def tagged(a):
            # contract of DiGraphEx.get_tagged_nodes: the list of the DISTINCT nodes carrying the tag (length = their number)
            if isinstance(a, SAliasStr):
                S_ = SSet.define("tagged", Id, lambda q: has_tag(q, a.t))
                return SList(S_, S_.c)
            if isinstance(a, SNodeIdStr):  # the id string of a referenced node, used as a tag: other nodes may carry a tag spelled like it
                S_ = SSet.define("tagged", Id, lambda q: has_tag(q, id_as_tag(a.t)))
                return SList(S_, S_.c)
            return SList(SSet(Id), z3.IntVal(0))

        dag.graph_ids.get_tagged_nodes = tagged
        dag.graph_ids.tags = "TAGS"
        dag.get_node_by_id = lambda a: SXn(str_id(a.t))
        n = "alias_to_ids"
        if case == "node":
            i = C.fresh("alias_id", Id)
            try:
                r = f(dag, SAliasNode(i))
            except ValueError:
                C.check(z3.Not(dom[i]), f"{n}.exceptional.C12.ValueError_iff_the_node_is_not_in_the_DAG", {"C12"}, "post")
                return "raises ValueError"
            C.check(dom[i], f"{n}.post.C12.foreign_node_refused", {"C12"}, "post")
            S = sym.as_set(r, Id)
            C.check(z3.ForAll([x], S.mem(x) == (x == i)), f"{n}.post.C12.a_reference_resolves_to_its_own_id_and_nothing_else", {"C12"}, "post")
            return "return"
        if case == "other":
            try:
                f(dag, 42)
            except TawaziTypeError:
                return "raises TawaziTypeError"
            C.check(z3.BoolVal(False), f"{n}.post.C12.other_types_are_refused", {"C12"}, "post")
            return "return"
        a = C.fresh("alias", Tag)
        some_tagged = z3.Exists([x], has_tag(x, a))
        is_id = z3.And(str_is_id(a), dom[str_id(a)])
        try:
            r = f(dag, SAliasStr(a))
        except ValueError:
            C.check(z3.Not(z3.Or(some_tagged, is_id)), f"{n}.exceptional.C12.ValueError_iff_neither_tag_nor_id", {"C12"}, "post")
            return "raises ValueError"
        C.check(z3.Or(some_tagged, is_id), f"{n}.post.C12.unknown_alias_refused", {"C12"}, "post")
        if isinstance(r, list):
            r = [SId(str_id(e.t)) if isinstance(e, SAliasStr) else e for e in r]  # a str alias returned as an id IS that id
        S = sym.as_set(r, Id)
        C.check(z3.Implies(some_tagged, z3.ForAll([x], S.mem(x) == has_tag(x, a))), f"{n}.post.C12.a_tag_resolves_to_all_nodes_carrying_it_and_wins_over_an_id", {"C12"}, "post")
        C.check(z3.Implies(z3.Not(some_tagged), z3.ForAll([x], S.mem(x) == (x == str_id(a)))), f"{n}.post.C12.otherwise_the_id_itself", {"C12"}, "post")
        return "return"


# ---- _pre_setup / setup -----------------------------------------------------------------------------------------------------------
def resolved(dag, aliases):
    """contract of get_multiple_nodes_aliases as seen by callers: a list of ids of nodes of the DAG, or ValueError"""
    if aliases is None:
        raise ContractBindError("get_multiple_nodes_aliases(None)")
    if C.choose("an alias is unknown"):
        raise ValueError("node or tag not found in DAG")
    r = SList.fresh("resolved_ids", Id)
    C.assume(z3.ForAll([x], z3.Implies(r.s.mem(x), dag.xn_dom[x])))
    r.resolved_from = aliases
    return r


class SDagAdmin(SDag):
    def __init__(self, flavour="sync"):
        SDag.__init__(self, flavour)
        self.graph_ids.make_subgraph = lambda target_nodes=None, exclude_nodes=None, root_nodes=None: self._ms(target_nodes, exclude_nodes, root_nodes)
        C.assume(z3.ForAll([x], self.graph_ids.N[x] == self.xn_dom[x]))  # the id graph has exactly the table's keys
        C.assume(z3.ForAll([x], self.graph_ids.setup.val[x] == is_setup(x)))
        self._ms_calls = []

    def _ms(self, T, X, R):
        g = stub_make_subgraph(self.graph_ids, T, X, R)
        self._ms_calls.append((T, X, R, g))
        self._ms_result_N = g.N
        return g

    def get_multiple_nodes_aliases(self, aliases):
        return resolved(self, aliases)

    def _pre_setup(self, T, X, R):
        g = SDiGraphEx(name="setup_graph", tables=dict(compound_priority=self.graph_ids.compound_priority, debug=self.graph_ids.debug, setup=self.graph_ids.setup, tag=self.graph_ids.tag))
        g.owner = "fresh"
        C.assume(z3.ForAll([x], z3.Implies(g.N[x], z3.And(self.xn_dom[x], is_setup(x)))))
        self._pre_setup_args = (T, X, R)
        return g


class PreSetup:
    module = "tawazi._dag.dag"
    qualname = "BaseDAG._pre_setup"
    loops = {}

    def cases(self):
        return [f"T={t},X={x_},R={r}" for t in "01" for x_ in "01" for r in "01"]

    def run(self, f, case):
        hasT, hasX, hasR = (c == "1" for c in (case[2], case[6], case[10]))
        dag = SDagAdmin()
        dag.__class__ = type("SDagRaw", (SDagAdmin,), {"_pre_setup": None})
        mk = lambda nm: _Aliases(nm)  # noqa: E731
        T, X, R = (mk("T") if hasT else None), (mk("X") if hasX else None), (mk("R") if hasR else None)
        snap = (dag.graph_ids.N, dag.results.dom, dag.results.val)
        try:
            g = f(dag, T, X, R)
        except (ValueError, lib.NetworkXError):
            C.check(z3.And(dag.graph_ids.N == snap[0], dag.results.dom == snap[1]), "_pre_setup.exceptional.C11.nothing_changed", {"C11", "C15"}, "post")
            return "raises"
        n = "_pre_setup.post"
        if len(dag._ms_calls) != 1:
            raise ContractBindError("_pre_setup: expected exactly one make_subgraph call")
        t_, x_, r_, sub = dag._ms_calls[0]
        # C11: "runs only the setup nodes its selection needs": without targets the selection (roots / excluded) alone
        # decides -- it must not be widened to every setup node of the DAG
        okT = (getattr(t_, "resolved_from", None) is T) if hasT else (t_ is None)
        okX = (getattr(x_, "resolved_from", None) is X) if hasX else x_ is None
        okR = (getattr(r_, "resolved_from", None) is R) if hasR else r_ is None
        C.check(z3.BoolVal(bool(okT and okX and okR)), f"{n}.C11.selection_is_exactly_the_callers_targets_excluded_nodes_and_roots", {"C11", "C12"}, "post")
        if g is not sub:
            raise ContractBindError("_pre_setup: does not return the graph made by make_subgraph")
        subN = dag._ms_result_N
        C.check(z3.ForAll([x], g.N[x] == z3.And(subN[x], is_setup(x))), f"{n}.C11.only_the_setup_nodes_of_the_selection", {"C11", "C13"}, "post")
        C.check(z3.BoolVal(getattr(g, "owner", None) == "fresh"), f"{n}.C15.fresh_graph", {"C15"}, "post")
        C.check(z3.And(dag.graph_ids.N == snap[0], dag.results.dom == snap[1], dag.results.val == snap[2]), f"{n}.frame.C15.dag_untouched", {"C15", "C11"}, "frame")
        return "return"


class _Aliases(Sym):
    def __init__(self, name):
        self.name = name


class Setup:
    module = "tawazi._dag.dag"
    loops = {}

    def __init__(self, flavour):
        self.flavour = flavour
        self.qualname = ("DAG" if flavour == "sync" else "AsyncDAG") + ".setup"

    def namespace(self):
        def sync_execute(**k):
            return self._exec(k, "sync_execute")

        def async_execute(**k):
            return SAwaitable(lambda: self._exec(k, "async_execute"))

        if self.flavour == "sync":
            return {"sync_execute": sync_execute, "async_execute": lambda **k: (_ for _ in ()).throw(ContractBindError("DAG.setup must use sync_execute"))}
        return {"async_execute": async_execute, "sync_execute": lambda **k: (_ for _ in ()).throw(ContractBindError("AsyncDAG.setup must await async_execute"))}

    def _exec(self, k, where):
        dag = C.ghost["dag"]
        if set(k) != {"exec_nodes", "results", "max_concurrency", "graph"}:
            raise ContractBindError("unexpected scheduler arguments")
        out = execute_summary(dag, k["exec_nodes"], k["results"], k["max_concurrency"], k["graph"], "setup")
        C.ghost["exec"].append(dict(k, out=out))
        return out

    def run(self, f, case):
        dag = SDagAdmin(self.flavour)
        C.ghost.update(dag=dag, exec=[])
        old = (dag.results.dom, dag.results.val)
        old_obj = dag.results
        T, X, R = _Aliases("T"), _Aliases("X"), _Aliases("R")
        n = self.qualname
        try:
            r = f(dag, T, X, R)
            if isinstance(r, SAwaitable):
                r = r.run()
        except NodeFailure:
            C.check(z3.And(dag.results.dom == old[0], dag.results.val == old[1]), f"{n}.exceptional.C11.results_unchanged_by_a_failed_setup", {"C11", "C15"}, "post")
            return "raises NodeFailure"
        C.check(z3.BoolVal(getattr(dag, "_pre_setup_args", None) == (T, X, R)), f"{n}.post.C11.selection_forwarded_to_pre_setup", {"C11", "C12"}, "post")
        if len(C.ghost["exec"]) != 1:
            raise ContractBindError(f"{n}: expected one scheduler call")
        ex = C.ghost["exec"][0]
        C.check(z3.BoolVal(ex["results"] is old_obj), f"{n}.post.C11.starts_from_the_dags_results", {"C11"}, "post")
        newr = dag.results
        if not isinstance(newr, SMap):
            raise ContractBindError(f"{n}: dag.results is no longer a results map")
        C.check(z3.ForAll([x], z3.Implies(old[0][x], z3.And(newr.dom[x], newr.val[x] == old[1][x]))), f"{n}.post.C11.results_only_grow", {"C11", "C15"}, "post")
        C.check(z3.ForAll([x], z3.Implies(z3.And(newr.dom[x], z3.Not(old[0][x])), is_setup(x))), f"{n}.post.C11.only_setup_results_are_added", {"C11", "C15", "C13"}, "post")
        C.check(z3.BoolVal(newr is ex["out"][1]), f"{n}.post.C11.results_of_the_setup_run_are_kept", {"C11"}, "post")
        return "return"


class ExecutionSetup:
    """DAGExecution.setup / AsyncDAGExecution.setup: the executor's own selection (targets, excluded nodes AND roots)
    is what its setup() runs"""

    module = "tawazi._dag.dag"
    loops = {}

    def __init__(self, flavour):
        self.flavour = flavour
        self.qualname = ("DAGExecution" if flavour == "sync" else "AsyncDAGExecution") + ".setup"

    def run(self, f, case):
        calls = []

        class _Dag(Sym):
            def setup(self_, target_nodes=None, exclude_nodes=None, root_nodes=None):
                calls.append((target_nodes, exclude_nodes, root_nodes))
                if self.flavour == "async":
                    return SAwaitable(lambda: None)
                return None

        class _Ex(Sym):
            def _resolved_nodes(self_, ids):
                # summary contract of BaseDAGExecution._resolved_nodes (unit ResolvedNodes): the node objects of these ids
                return ("the-nodes-of", ids)

        ex = _Ex()
        ex.dag = _Dag()
        ex.target_nodes, ex.exclude_nodes, ex.root_nodes = _Aliases("T"), _Aliases("X"), _Aliases("R")
        r = f(ex)
        if isinstance(r, SAwaitable):
            r.run()
        n = self.qualname
        # From the property (C11: "setup runs only the setup nodes its selection needs"), not from the code: the executor holds
        # RESOLVED ids; DAG.setup resolves ALIASES, and there a string that is also a tag means the tagged nodes.  What
        # reaches DAG.setup must therefore denote exactly the executor's nodes: the node objects themselves (an id string
        # handed over as it is was the defect repaired by the `fix:` commit recorded in known_findings.json).
        exact = lambda got, ids: isinstance(got, tuple) and len(got) == 2 and got[0] == "the-nodes-of" and got[1] is ids  # noqa: E731
        ok = len(calls) == 1 and exact(calls[0][0], ex.target_nodes) and exact(calls[0][1], ex.exclude_nodes) and exact(calls[0][2], ex.root_nodes)
        C.check(z3.BoolVal(ok), f"{n}.post.C11.runs_the_setup_nodes_of_the_executors_own_selection_roots_included", {"C11", "C12"}, "post")
        return "return"


class ResolvedNodes:
    """BaseDAGExecution._resolved_nodes: None stays None; a sequence of resolved ids becomes the sequence of THEIR node
    objects (same length, same order), so that resolving them again as aliases gives back exactly these ids"""

    module = "tawazi._dag.dag"
    qualname = "BaseDAGExecution._resolved_nodes"
    loops = {}

    def cases(self):
        return ["none", "ids"]

    def run(self, f, case):
        node_of = z3.Function("node_of_id", Id, Val)

        class _Dag(Sym):
            def get_node_by_id(self_, nid):
                return SVal(node_of(term(nid)))

        class _Ex(Sym):
            pass

        ex = _Ex()
        ex.dag = _Dag()
        n = self.qualname.split(".")[-1]
        if case == "none":
            r = f(ex, None)
            C.check(z3.BoolVal(r is None), f"{n}.post.C11.no_selection_stays_no_selection", {"C11", "C12"}, "post")
            return "return"
        ident = z3.Function("resolved_id", I, Id)
        ln = C.fresh("n_ids", I)
        C.assume(ln >= 0)
        ids = SSeq(ln, lambda i: SId(ident(i)), list, "ids")
        r = f(ex, ids)
        if not isinstance(r, SSeq):
            raise Unsupported("result of _resolved_nodes is not a sequence the engine models")
        i = bv("i!rn", I)
        C.check(r.n == ln, f"{n}.post.C11.one_node_per_resolved_id", {"C11", "C12"}, "post")
        C.check(z3.ForAll([i], z3.Implies(z3.And(i >= 0, i < ln), term(r.at(i), Val) == node_of(ident(i)))), f"{n}.post.C11.the_ith_element_is_the_node_of_the_ith_id", {"C11", "C12"}, "post")
        return "return"


# ---- BaseDAGExecution.__post_init__ ---------------------------------------------------------------------------------------------------
class ExecutionPostInit:
    module = "tawazi._dag.dag"
    qualname = "BaseDAGExecution.__post_init__"
    loops = {}

    def cases(self):
        return [f"T={t},X={x_},R={r},D={d}" for t in "01" for x_ in "01" for r in "01" for d in "01"]

    def namespace(self):
        return {"cfg": SCfgRef(), "list": lambda o: ("list", o)}

    def run(self, f, case):
        hasT, hasX, hasR, hasD = (c == "1" for c in (case[2], case[6], case[10], case[14]))
        dag = SDagAdmin()
        C.ghost.update(cfg=SCfg())

        class _Ex(Sym):
            pass

        ex = _Ex()
        ex.dag = dag
        ex.target_nodes = _Aliases("T") if hasT else None
        ex.exclude_nodes = _Aliases("X") if hasX else None
        ex.root_nodes = _Aliases("R") if hasR else None
        ex.cache_deps_of = _Aliases("D") if hasD else None
        orig = (ex.target_nodes, ex.exclude_nodes, ex.root_nodes, ex.cache_deps_of)
        snap = (dag.graph_ids.N, dag.results.dom)
        n = "BaseDAGExecution.__post_init__"
        try:
            f(ex)
        except (ValueError, lib.NetworkXError):
            C.check(z3.And(dag.graph_ids.N == snap[0], dag.results.dom == snap[1]), f"{n}.exceptional.C12.nothing_ran_nothing_changed", {"C12", "C15"}, "post")
            C.check(z3.BoolVal(not dag._calls), f"{n}.exceptional.C12.errors_are_raised_before_anything_runs", {"C12"}, "post")
            return "raises ValueError"
        C.check(z3.BoolVal(not (hasD and (hasT or hasX or hasR))), f"{n}.post.cache_deps_of_with_a_selection_is_refused", {"C18", "C12"}, "post")
        if len(dag._ms_calls) != 1:
            raise ContractBindError(f"{n}: expected one make_subgraph call")
        t_, x_, r_, sub = dag._ms_calls[0]
        if hasD:
            ok = getattr(t_, "resolved_from", None) is orig[3] and x_ is None and r_ is None
            C.check(z3.BoolVal(bool(ok)), f"{n}.post.C18.cache_deps_of_selects_the_nodes_and_their_dependencies", {"C18"}, "post")
        else:
            ok = all((getattr(v_, "resolved_from", None) is o) if o is not None else v_ is None for v_, o in zip((t_, x_, r_), orig[:3]))
            C.check(z3.BoolVal(bool(ok)), f"{n}.post.C12.selection_is_the_resolved_targets_excludes_roots", {"C12", "C03"}, "post")
        g = getattr(ex, "graph", None)
        df = getattr(g, "derived_from", None)
        C.check(z3.BoolVal(df is not None and df[0] is sub and df[1] is dag.graph_ids), f"{n}.post.C13.executor_graph_is_the_selection_with_the_debug_rule", {"C13", "C12", "C03"}, "post")
        C.check(z3.And(dag.graph_ids.N == snap[0], dag.results.dom == snap[1]), f"{n}.frame.C15.dag_untouched", {"C15"}, "frame")
        return "return"


# ---- _post_call / results property -----------------------------------------------------------------------------------------------------
class PostCall:
    module = "tawazi._dag.dag"
    qualname = "BaseDAGExecution._post_call"
    loops = {}

    def namespace(self):
        def grv(ru, res):
            C.ghost["grv"].append((ru, res))
            return "VALUE"

        return {"get_return_values": grv}

    def run(self, f, case):
        dag = SDag()
        ex = SExecution(dag, "sync")
        ex.__class__ = type("SExecutionRaw2", (SExecution,), {"_post_call": None})
        run_results = SMap.fresh("run_results", Id, Val, strict=True)
        ex._results = run_results
        C.ghost.update(grv=[], cached=[])
        ex._cache_results = lambda r: C.ghost["cached"].append(r)
        r = f(ex)
        n = "_post_call.post"
        C.check(z3.BoolVal(ex.executed is True), f"{n}.C15.marks_the_executor_as_executed", {"C15"}, "post")
        C.check(z3.BoolVal(C.ghost["grv"] == [(dag.return_uxns, run_results)] and r == "VALUE"), f"{n}.C12.returns_the_values_of_this_run", {"C12", "C01", "C18"}, "post")
        cached = C.ghost["cached"]
        C.check(ex.cache_in.nonempty == z3.BoolVal(len(cached) == 1), f"{n}.C18.cache_written_iff_cache_in_is_set", {"C18"}, "post")
        if cached:
            C.check(z3.BoolVal(cached[0] is run_results), f"{n}.C18.the_results_of_this_run_are_cached", {"C18"}, "post")
        return "return"


class ResultsProperty:
    module = "tawazi._dag.dag"
    qualname = "BaseDAGExecution.results"
    loops = {}

    def cases(self):
        return ["executed", "not-executed"]

    def run(self, f, case):
        class _Ex(Sym):
            pass

        ex = _Ex()
        ex.executed = case == "executed"
        ex._results = "RUN"
        ex.dag = _Ex()
        ex.dag.results = "DAG"
        r = f(ex)
        C.check(z3.BoolVal(r == ("RUN" if case == "executed" else "DAG")), "results.post.C15.run_results_once_executed_else_the_dags", {"C15", "C18", "C12"}, "post")
        return "return"


# ---- config_from_dict ---------------------------------------------------------------------------------------------------------------------
class ConfigFromDict:
    module = "tawazi._dag.dag"
    qualname = "BaseDAG.config_from_dict"

    def __init__(self):
        self.loops = {0: self.Loop()}

    def cases(self):
        return ["nodes+max", "nodes", "max", "empty"]

    class Loop(LoopSpec):
        carried = ()
        local_ok = ()

        def modifies(self, env):
            return [C.ghost["table"]]

        def inv(self, env, st):
            t = C.ghost["table"]
            i = bv("i!c", I)
            t0d, t0v = C.ghost["table0"]
            is_seen = lambda q: z3.Exists([i], z3.And(st.seen[i], cfg_id(i) == q))  # noqa: E731
            return [
                ("configured_nodes_replaced", z3.ForAll([i], z3.Implies(st.seen[i], z3.And(t.dom[cfg_id(i)], t.val[cfg_id(i)] == new_node(cfg_id(i), i)))), {"C07", "C05"}),
                ("other_nodes_untouched", z3.ForAll([x], z3.Implies(z3.Not(is_seen(x)), z3.And(t.dom[x] == t0d[x], t.val[x] == t0v[x]))), {"C07", "C01"}),
            ]

    def namespace(self):
        class _DG:
            @staticmethod
            def from_exec_nodes(input_nodes=None, exec_nodes=None):
                t = C.ghost["table"]
                C.ghost["fen"].append((input_nodes, exec_nodes, t.dom, t.val))
                return "NEWGRAPH"

        def detect_duplicates(e):
            # summary contract of detect_duplicates: raises ValueError iff two entries configure the same node
            C.ghost["dup"].append(e)
            i, j = bv("i!c", I), bv("j!c", I)
            C.assume(z3.ForAll([i, j], z3.Implies(z3.And(i >= 0, j >= 0, i < e.n, j < e.n, i != j), cfg_id(i) != cfg_id(j))))

        return {"DiGraphEx": _DG, "detect_duplicates": detect_duplicates, "type": lambda o: (lambda **kw: _NewNode(kw))}

    def run(self, f, case):
        class _Me(Sym):
            pass

        me = _Me()
        table = SMap.fresh("exec_nodes", Id, Val)
        table.wrapv = lambda t: _OldNode(t)
        me.exec_nodes = table
        me.input_uxns = "INPUTS"
        me.results = "RESULTS"
        me.graph_ids = "OLDGRAPH"
        me.max_concurrency = "OLDMAX"
        ncfg = C.fresh("n_config", I)
        C.assume(ncfg >= 0)
        expanded = SSeq(ncfg, lambda i: (SId(cfg_id(i)), _Conf(i)), list, "expanded_config")
        me._expand_config = lambda nodes: expanded if nodes == "NODESCONF" else (_ for _ in ()).throw(ContractBindError("config['nodes'] expected"))
        me.get_node_by_id = lambda nid: _OldNode(table.val[term(nid)], term(nid))
        i = bv("i!c", I)
        C.assume(z3.ForAll([i], z3.Implies(z3.And(i >= 0, i < ncfg), table.dom[cfg_id(i)])))
        C.ghost.update(table=table, fen=[], dup=[], table0=(table.dom, table.val))
        config = {}
        if "nodes" in case:
            config["nodes"] = "NODESCONF"
        if "max" in case:
            config["max_concurrency"] = "NEWMAX"
        f(me, config)
        n = "config_from_dict.post"
        fen = C.ghost["fen"]
        C.check(z3.BoolVal(len(fen) == 1 and me.graph_ids == "NEWGRAPH"), f"{n}.C07.graph_and_priority_table_rebuilt", {"C07", "C06"}, "post")
        if fen:
            C.check(z3.And(fen[-1][2] == table.dom, fen[-1][3] == table.val), f"{n}.C07.rebuilt_from_the_final_node_table", {"C07"}, "post")
        C.check(z3.BoolVal(me.max_concurrency == ("NEWMAX" if "max" in case else "OLDMAX")), f"{n}.C04.max_concurrency_set_iff_configured", {"C04", "C08"}, "post")
        C.check(z3.BoolVal(me.results == "RESULTS"), f"{n}.C15.results_untouched", {"C15", "C01", "C11"}, "post")
        if "nodes" in case:
            C.check(z3.BoolVal(C.ghost["dup"] == [expanded]), f"{n}.duplicates_checked", {"C07"}, "post")
            C.check(z3.ForAll([i], z3.Implies(z3.And(i >= 0, i < ncfg), table.val[cfg_id(i)] == new_node(cfg_id(i), i))), f"{n}.C07.every_configured_node_is_replaced_by_its_reconfigured_copy", {"C07", "C05"}, "post")
        return "return"


cfg_id = z3.Function("config_node_id", I, Id)
new_node = z3.Function("reconfigured_node", Id, I, Val)


class _Conf(Sym):
    def __init__(self, i):
        self.i = i


class _OldNode(SVal):
    def __init__(self, t, nid=None):
        SVal.__init__(self, t)
        self.nid = nid

    def _conf_to_values(self, conf):
        return {"__node": self.nid, "__conf": conf.i}


class _NewNode(SVal):
    def __init__(self, kw):
        SVal.__init__(self, new_node(kw["__node"], kw["__conf"]))


# ---- detect_duplicates ---------------------------------------------------------------------------------------------------------------------
occurrences = z3.Function("occurrences_in_expanded_config", Id, I)


class _Counter(Sym):
    """TRUSTED clause of collections.Counter(seq): `.items()` enumerates each distinct element x of seq once, paired with
    occ(x); occ(x) >= 1 iff x occurs, occ(x) > 1 iff x occurs at two different indices (all the body relies on).  The
    clause is evaluated on the real collections.Counter by harness/conformance.py."""

    def __init__(self, seq):
        col = seq._vc_iter() if hasattr(seq, "_vc_iter") else None  # a list, or a generator mapped over a list (index -> element)
        if col is None or col.sort != I:
            raise ContractBindError("Counter expected over the sequence of configured ids")
        i, j = bv("i!k", I), bv("j!k", I)
        inr = col.pred
        at = lambda k: term(col.elem(k), Id)  # noqa: E731
        C.assume(z3.ForAll([x], (occurrences(x) >= 1) == z3.Exists([i], z3.And(inr(i), at(i) == x))))
        C.assume(z3.ForAll([x], (occurrences(x) > 1) == z3.Exists([i, j], z3.And(inr(i), inr(j), i != j, at(i) == x, at(j) == x))))

    def items(self):
        return SIter(Id, lambda v: occurrences(v) >= 1, lambda v: (SId(v), SInt(occurrences(v))))


class DetectDuplicates:
    """detect_duplicates(expanded_config): raises ValueError iff two entries configure the same node id; this is the
    summary that `config_from_dict` uses at its call site (there assumed, here proved from the body)."""

    module = "tawazi._dag.dag"
    qualname = "detect_duplicates"
    loops = {}

    def namespace(self):
        return {"Counter": _Counter}

    def run(self, f, case):
        ncfg = C.fresh("n_config", I)
        C.assume(ncfg >= 0)
        expanded = SSeq(ncfg, lambda i: (SId(cfg_id(i)), _Conf(i)), list, "expanded_config")
        i, j = bv("i!c", I), bv("j!c", I)
        dup = z3.Exists([i, j], z3.And(i >= 0, j >= 0, i < ncfg, j < ncfg, i != j, cfg_id(i) == cfg_id(j)))
        try:
            r = f(expanded)
        except ValueError:
            C.check(dup, "detect_duplicates.exceptional.C07.ValueError_only_if_two_entries_configure_the_same_node", {"C07", "C14"}, "post")
            return "raises ValueError"
        C.check(z3.Not(dup), "detect_duplicates.post.C07.normal_return_only_if_every_node_is_configured_at_most_once", {"C07"}, "post")
        C.check(z3.BoolVal(r is None), "detect_duplicates.post.returns_nothing", {"C07"}, "post")
        return "return"


# ---- _cache_results -----------------------------------------------------------------------------------------------------------------------
class CacheResults:
    """BaseDAGExecution._cache_results: what is pickled is the results of the run, minus the nodes of cache_deps_of
    (ghost file system: the object handed to pickle.dump).  From the property (C18: "with cache_deps_of=[n] the file holds
    every result n depends on but not n's"): `cache_deps_of` holds the ids RESOLVED in __post_init__, and exactly these ids
    are left out - resolving them once more as aliases (a tag spelled like an id wins there) was the defect repaired by
    the `fix:` commit recorded in known_findings.json; the stub of alias_to_ids below models that second resolution as an
    arbitrary set of ids, so code that goes through it again cannot prove the clause."""

    module = "tawazi._dag.dag"
    qualname = "BaseDAGExecution._cache_results"
    loops = {}

    def cases(self):
        return ["all", "deps_of"]

    def run(self, f, case):
        dumped, opened, mk = [], [], []
        again = z3.Function("ids_when_resolved_again_as_alias", Id, sym.SetSort(Id))

        class _P(Sym):
            HIGHEST_PROTOCOL = 5

            @staticmethod
            def dump(obj, fh, protocol=None, fix_imports=None):
                dumped.append((obj, fh))

        class _F(Sym):
            def __enter__(self):
                return self

            def __exit__(self, *a):
                return False

        def _open(path, mode):
            fh = _F()
            opened.append((path, mode, fh))
            return fh

        class _Path(Sym):
            def __init__(self, p):
                self.p = p

            @property
            def parent(self):
                return self

            def mkdir(self, **k):
                mk.append(self.p)

        n_al = C.fresh("n_deps", I)
        C.assume(n_al >= 0)
        ident = z3.Function("resolved_dep_id", I, Id)

        class _Dag(Sym):
            def alias_to_ids(self, alias):
                return SList(SSet(Id, again(term(alias)), C.fresh("c_ids", I), "ids"))

        class _Ex(Sym):
            pass

        ex = _Ex()
        ex.cache_in = "CACHE-PATH"
        ex.dag = _Dag()
        ex.cache_deps_of = SSeq(n_al, lambda i: SId(ident(i)), list, "cache_deps_of") if case == "deps_of" else None
        results = SMap.fresh("results", Id, Val)
        f.__globals__.update({"pickle": _P, "open": _open, "Path": _Path})
        f(ex, results)
        n = "_cache_results.post"
        ok_file = len(opened) == 1 and opened[0][0] == "CACHE-PATH" and opened[0][1] == "wb" and len(dumped) == 1 and dumped[0][1] is opened[0][2]
        C.check(z3.BoolVal(ok_file), f"{n}.C18.one_pickle_written_to_cache_in", {"C18"}, "post")
        if len(dumped) != 1:
            return "return"
        obj = dumped[0][0]
        if not isinstance(obj, SMap):
            raise ContractBindError("_cache_results: the pickled object is not a results map")
        if case == "all":
            C.check(z3.And(obj.dom == results.dom, z3.ForAll([x], z3.Implies(results.dom[x], obj.val[x] == results.val[x]))), f"{n}.C18.all_results_of_the_run_are_cached", {"C18"}, "post")
            return "return"
        i = bv("i!cr", I)
        excluded = lambda t: z3.Exists([i], z3.And(i >= 0, i < n_al, ident(i) == t))  # noqa: E731
        C.check(z3.ForAll([x], obj.dom[x] == z3.And(results.dom[x], z3.Not(excluded(x)))), f"{n}.C18.every_result_except_those_of_the_nodes_in_cache_deps_of_is_cached", {"C18"}, "post")
        C.check(z3.ForAll([x], z3.Implies(obj.dom[x], obj.val[x] == results.val[x])), f"{n}.C18.cached_values_are_the_values_of_the_run", {"C18"}, "post")
        return "return"


# ---- get_multiple_nodes_aliases --------------------------------------------------------------------------------------------------------------
class GetMultipleNodesAliases:
    module = "tawazi._dag.dag"
    qualname = "BaseDAG.get_multiple_nodes_aliases"
    loops = {}

    def namespace(self):
        return {"chain": lib.vc_chain}

    def run(self, f, case):
        ids_arr = z3.Function("ids_of_alias", I, sym.SetSort(Id))
        bad = z3.Function("alias_is_unknown", I, B)
        n_al = C.fresh("n_aliases", I)
        C.assume(n_al >= 0)

        class _Alias(Sym):
            def __init__(self, i):
                self.i = i

            def _vc_subst(self, a, b):
                return _Alias(z3.substitute(self.i, (a, b)))

        class _Dag(Sym):
            def alias_to_ids(self, alias):
                # contract of alias_to_ids (AliasToIds): the ids the alias stands for, ValueError for an unknown alias
                C.check(z3.Not(bad(alias.i)), "get_multiple_nodes_aliases.pre.alias_known", {"C12"}, "pre")
                return SList(SSet(Id, ids_arr(alias.i), C.fresh("c_ids", I), "ids"))

        dag = _Dag()
        i = bv("i!ga", I)
        # the exceptional case (an unknown alias raises ValueError out of alias_to_ids) is structural: no handler here
        C.assume(z3.ForAll([i], z3.Not(bad(i))))
        nodes = SSeq(n_al, lambda j: _Alias(j), list, "nodes")
        r = f(dag, nodes)
        S = sym.as_set(r, Id)
        C.check(z3.ForAll([x], S.mem(x) == z3.Exists([i], z3.And(i >= 0, i < n_al, ids_arr(i)[x]))), "get_multiple_nodes_aliases.post.C12.exactly_the_ids_of_all_the_aliases", {"C12", "C18"}, "post")
        return "return"


# ---- _get_single_xn_by_alias / config loaders / executor ---------------------------------------------------------------------------------------
class GetSingleXnByAlias:
    """BaseDAG._get_single_xn_by_alias: an alias that stands for several nodes is refused (C19: 'an ambiguous alias raises
    ValueError'), otherwise the one node it stands for"""

    module = "tawazi._dag.dag"
    qualname = "BaseDAG._get_single_xn_by_alias"
    loops = {}

    def run(self, f, case):
        S = SSet.fresh("ids_of_alias", Id)
        only = C.fresh("the_only_id", Id)

        class _Ids(SList):
            def __getitem__(self_, i):
                if i != 0:
                    raise Unsupported("only the first id is read")
                C.check(S.c > 0, "_get_single_xn_by_alias.no_internal_error.alias_resolves_to_at_least_one_node", {"C14", "C19"}, "internal")
                C.assume(S.a[only])
                return SId(only)

        class _Dag(Sym):
            exec_nodes = SXnMap(C.fresh("xn_dom", sym.SetSort(Id)), "exec_nodes")

            def alias_to_ids(self_, alias):
                # contract of alias_to_ids: a non-empty list of distinct node ids of the DAG (or ValueError)
                C.assume(S.c >= 1, z3.ForAll([x], z3.Implies(S.a[x], self_.exec_nodes.dom[x])))
                return _Ids(S, S.c)

        try:
            r = f(_Dag(), "ALIAS")
        except ValueError:
            C.check(S.c > 1, "_get_single_xn_by_alias.exceptional.C19.ValueError_only_for_an_alias_that_stands_for_several_nodes", {"C19", "C12"}, "post")
            return "raises ValueError"
        C.check(S.c == 1, "_get_single_xn_by_alias.post.C19.an_ambiguous_alias_is_refused", {"C19", "C12"}, "post")
        C.check(S.a[r._x], "_get_single_xn_by_alias.post.C19.returns_the_node_the_alias_stands_for", {"C19"}, "post")
        return "return"


class ConfigFromFile:
    """config_from_yaml / config_from_json: exactly config_from_dict(load(file)) (the loaders are trusted)"""

    module = "tawazi._dag.dag"
    loops = {}

    def __init__(self, kind):
        self.kind = kind
        self.qualname = f"BaseDAG.config_from_{kind}"

    def run(self, f, case):
        log = dict(opened=[], loaded=[], cfg=[])

        class _F:
            def __enter__(self_):
                return self_

            def __exit__(self_, *a):
                return False

        fh = _F()

        def _open(path, *a):
            log["opened"].append(path)
            return fh

        class _Loader:
            @staticmethod
            def load(f_, **kw):
                log["loaded"].append((f_, kw))
                return "THE-CONFIG"

        class _Dag(Sym):
            def config_from_dict(self_, cfg_):
                log["cfg"].append(cfg_)

        f.__globals__.update({"open": _open, "yaml": _Loader, "json": _Loader})
        f(_Dag(), "PATH")
        ok = log["opened"] == ["PATH"] and len(log["loaded"]) == 1 and log["loaded"][0][0] is fh and log["cfg"] == ["THE-CONFIG"]
        C.check(z3.BoolVal(ok), f"config_from_{self.kind}.post.C01.exactly_config_from_dict_of_the_loaded_file", {"C01", "C07"}, "post")
        return "return"


class Executor:
    """DAG.executor / AsyncDAG.executor: the selection arguments reach the DAGExecution unchanged"""

    module = "tawazi._dag.dag"
    loops = {}

    def __init__(self, flavour):
        self.flavour = flavour
        self.qualname = ("DAG" if flavour == "sync" else "AsyncDAG") + ".executor"

    def run(self, f, case):
        made = []

        def ctor(**kw):
            made.append(kw)
            return "EXECUTION"

        f.__globals__.update({"DAGExecution": ctor, "AsyncDAGExecution": ctor})
        me = _Aliases("self")
        r = f(me, "T", "X", "R", "D", "IN", "FROM")
        ok = r == "EXECUTION" and made == [dict(dag=me, target_nodes="T", exclude_nodes="X", root_nodes="R", cache_deps_of="D", cache_in="IN", from_cache="FROM")]
        C.check(z3.BoolVal(ok), f"{self.qualname}.post.C12.selection_and_cache_arguments_reach_the_execution_unchanged", {"C12", "C18"}, "post")
        return "return"
