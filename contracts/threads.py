"""Ownership contracts for C16 (thread safety): who may take the description branch, and the lock discipline of
threadsafe_make_dag.  Ghost state: which thread (if any) holds exec_nodes_lock and what `describing_thread` says."""
import z3

from pyvc import sym
from pyvc.core import C, ContractBindError, PathEnd, Unsupported
from pyvc.sym import B, I, SBool, SInt, Sym


class ThreadState:
    def __init__(self):
        self.me = C.fresh("me_thread", I)
        self.locked = C.fresh("lock_held", B)
        self.holder = C.fresh("lock_holder", I)
        self.dt_set = C.fresh("describing_thread_set", B)
        self.dt = C.fresh("describing_thread", I)
        # protocol invariant established by threadsafe_make_dag (contract below): describing_thread is only ever set
        # by the lock holder, to its own identity, and reset before the lock is released
        C.assume(z3.Implies(self.dt_set, z3.And(self.locked, self.dt == self.holder)))

    @property
    def me_is_builder(self):
        """the current thread is the one describing a DAG"""
        return z3.And(self.locked, self.holder == self.me, self.dt_set)


def thread_state():
    return ThreadState()


class OutOfScope(PathEnd):
    pass


class _Lock(Sym):
    def locked(self):
        return SBool(C.ghost["threads"].locked)

    def __enter__(self):
        ts = C.ghost["threads"]
        # acquiring blocks until the lock is free: afterwards this thread holds it
        C.ghost["lock_log"].append("acquire")
        ts.locked, ts.holder = z3.BoolVal(True), ts.me
        ts.dt_set = z3.BoolVal(False)  # protocol invariant: nobody left it set (checked at every release)
        return self

    def __exit__(self, *a):
        ts = C.ghost["threads"]
        C.check(z3.Not(ts.dt_set), "threadsafe_make_dag.lock_release.C16.describing_thread_reset_before_release", {"C16"}, "assert")
        C.ghost["lock_log"].append("release")
        ts.locked = z3.BoolVal(False)
        return False


class _Prefix(Sym):
    def append(self, v):
        ts = C.ghost["threads"]
        C.check(ts.me_is_builder, "describe_branch.C16.entered_only_by_the_describing_thread", {"C16"}, "assert")
        raise OutOfScope("describe branch (bounded stand-in)")


class SNodeModule(Sym):
    """the module tawazi.node.node as seen by DAG.__call__ / constructor: build globals + lock"""

    def __init__(self):
        object.__setattr__(self, "exec_nodes_lock", _Lock())
        object.__setattr__(self, "DAG_PREFIX", _Prefix())

    def in_description_context(self):
        # contract of node.in_description_context (verified below against its real body)
        return SBool(C.ghost["threads"].me_is_builder)

    def __setattr__(self, name, value):
        ts = C.ghost["threads"]
        if name == "describing_thread":
            C.check(z3.And(ts.locked, ts.holder == ts.me), "describing_thread.C16.written_only_by_the_lock_holder", {"C16"}, "assert")
            if value is None:
                ts.dt_set = z3.BoolVal(False)
            else:
                ts.dt_set, ts.dt = z3.BoolVal(True), sym.ti(value)
            return
        object.__setattr__(self, name, value)

    def __getattr__(self, name):
        if name == "describing_thread":
            ts = C.ghost["threads"]
            return SOptInt(ts.dt_set, ts.dt)
        raise Unsupported(f"node.{name}")


class SOptInt(Sym):
    def __init__(self, has, t):
        self.has, self.t = has, t

    def __eq__(self, o):
        if o is None:
            return SBool(z3.Not(self.has))
        return SBool(z3.And(self.has, self.t == sym.ti(o)))

    def _is_none(self):
        return SBool(z3.Not(self.has))


class InDescriptionContext:
    module = "tawazi.node.node"
    qualname = "in_description_context"
    loops = {}

    def namespace(self):
        class _L(Sym):
            def locked(self):
                return SBool(C.ghost["threads"].locked)

        return {"exec_nodes_lock": _L(), "describing_thread": None, "get_ident": lambda: SInt(C.ghost["threads"].me)}

    def run(self, f, case):
        ts = thread_state()
        C.ghost.update(threads=ts)
        f.__globals__["describing_thread"] = SOptInt(ts.dt_set, ts.dt)
        r = f()
        C.check(sym.tb(r) == z3.And(ts.locked, ts.dt_set, ts.dt == ts.me), "in_description_context.post.C16.true_iff_the_caller_is_the_describing_thread", {"C16"}, "post")
        C.check(z3.Implies(sym.tb(r), ts.me_is_builder), "in_description_context.post.C16.implies_caller_holds_the_build_lock", {"C16"}, "post")
        return "return"


class ThreadsafeMakeDag:
    module = "tawazi._dag.constructor"
    qualname = "threadsafe_make_dag"
    loops = {}

    def cases(self):
        return ["normal", "describing-function-raises"]

    def namespace(self):
        def wrap(_func, max_concurrency, is_async):
            ts = C.ghost["threads"]
            C.check(z3.And(ts.locked, ts.holder == ts.me), "threadsafe_make_dag.C16.description_runs_under_the_lock", {"C16"}, "assert")
            C.check(z3.And(ts.dt_set, ts.dt == ts.me), "threadsafe_make_dag.C16.describing_thread_is_the_builder_during_the_description", {"C16"}, "assert")
            C.ghost["wrap_calls"].append((_func, max_concurrency, is_async))
            if C.ghost["case"] == "describing-function-raises":
                raise ValueError("describing function failed")
            return "THE_DAG"

        return {"node": SNodeModule(), "wrap_make_dag": wrap, "get_ident": lambda: SInt(C.ghost["threads"].me)}

    def run(self, f, case):
        ts = thread_state()
        C.ghost.update(threads=ts, lock_log=[], wrap_calls=[], case=case)
        C.assume(z3.Not(z3.And(ts.locked, ts.holder == ts.me)))  # a thread does not build a DAG while building a DAG
        try:
            r = f("FUNC", 3, False)
        except ValueError:
            r = None
        C.check(z3.BoolVal(C.ghost["lock_log"] == ["acquire", "release"]), "threadsafe_make_dag.post.C16.lock_taken_and_released_on_every_exit_path", {"C16"}, "post")
        C.check(z3.Not(ts.dt_set), "threadsafe_make_dag.post.C16.describing_thread_reset_on_every_exit_path", {"C16"}, "post")
        C.check(z3.BoolVal(C.ghost["wrap_calls"] == [("FUNC", 3, False)]), "threadsafe_make_dag.post.builds_exactly_one_dag_with_the_given_parameters", {"C16", "C01"}, "post")
        if case == "normal":
            C.check(z3.BoolVal(r == "THE_DAG"), "threadsafe_make_dag.post.returns_the_built_dag", {"C01"}, "post")
        return "return"


class WrapMakeDag:
    """wrap_make_dag: the three build globals are fresh and empty when the description starts and are replaced by fresh
    empty ones on EVERY exit path, so that a DAG owns its tables and nothing leaks into the next build"""

    module = "tawazi._dag.constructor"
    qualname = "wrap_make_dag"
    loops = {}

    def cases(self):
        return ["normal", "describing-function-raises", "recursion-NameError"]

    def run(self, f, case):
        class _SD:
            """StrictDict()"""

            def __init__(self, *a):
                self.fresh_empty = not a

        class _Node:
            pass

        node = _Node()
        node.exec_nodes, node.results, node.DAG_PREFIX = "STALE-TABLE", "STALE-RESULTS", ["stale-prefix"]
        log = {}

        def make_dag(_func, max_concurrency, is_async):
            log["at_call"] = (node.exec_nodes, node.results, node.DAG_PREFIX, _func, max_concurrency, is_async)
            # the description fills the tables it was given
            if case == "describing-function-raises":
                raise ValueError("describing function failed")
            if case == "recursion-NameError":
                raise NameError("name 'FUNC' is not defined")
            return "THE_DAG"

        class _Fn:
            __name__ = "FUNC"

        class _W:
            @staticmethod
            def warn(*a, **k):
                log["warned"] = True

        fn = _Fn()
        f.__globals__.update({"node": node, "StrictDict": _SD, "make_dag": make_dag, "warnings": _W})
        n = "wrap_make_dag"
        raised = None
        try:
            r = f(fn, 3, True)
        except (ValueError, NameError) as e:
            raised, r = e, None
        a = log.get("at_call")
        ok_call = a is not None and isinstance(a[0], _SD) and a[0].fresh_empty and isinstance(a[1], _SD) and a[1].fresh_empty and a[0] is not a[1] and a[2] == [] and a[3] is fn and a[4] == 3 and a[5] is True
        C.check(z3.BoolVal(bool(ok_call)), f"{n}.post.C15.description_starts_from_fresh_empty_tables_and_no_prefix", {"C15", "C16", "C20"}, "post")
        ok_after = isinstance(node.exec_nodes, _SD) and node.exec_nodes.fresh_empty and isinstance(node.results, _SD) and node.results.fresh_empty and node.DAG_PREFIX == []
        C.check(z3.BoolVal(bool(ok_after)), f"{n}.post.C16.build_globals_reset_on_every_exit_path", {"C16", "C15"}, "post")
        not_shared = a is not None and node.exec_nodes is not a[0] and node.results is not a[1] and node.DAG_PREFIX is not a[2]
        C.check(z3.BoolVal(bool(not_shared)), f"{n}.post.C15.the_dag_keeps_its_tables_the_globals_get_new_ones", {"C15", "C16"}, "post")
        if case == "normal":
            C.check(z3.BoolVal(r == "THE_DAG" and raised is None), f"{n}.post.returns_the_built_dag", {"C01"}, "post")
        else:
            C.check(z3.BoolVal(raised is not None), f"{n}.exceptional.C14.the_error_of_the_description_propagates", {"C14"}, "post")
        return "return" if raised is None else f"raises {type(raised).__name__}"


# ---- make_dag -------------------------------------------------------------------------------------------------------------------
class MakeDag:
    """tawazi/_dag/constructor.py make_dag: one argument holder per parameter of the describing function (in signature
    order: parameters without default, then the defaulted ones), defaults stored under their holders' ids, the
    describing function called exactly once with references to those holders, its return value wrapped by
    wrap_in_uxns, and the DAG built from the very tables the description filled.  (What the describing function's BODY
    records is the business of LazyExecNode.__call__ / DAG.__call__; its meaning is covered by the bounded program
    stand-in only.)"""

    module = "tawazi._dag.constructor"
    qualname = "make_dag"

    def __init__(self):
        from pyvc.engine import LoopSpec

        outer = self

        class DefaultsLoop(LoopSpec):
            carried = ("args",)

            def modifies(self, env):
                return [C.ghost["results"]]

            def rebind(self, env):
                return {"args": outer.SHolders.fresh()}

            def inv(self, env, st):
                return outer.inv(env["args"], st.nseen)

        self.loops = {0: DefaultsLoop()}

    def cases(self):
        return ["sync", "async"]

    # -- model ------------------------------------------------------------------------------------------------
    class SHolder(Sym):
        def __init__(self, i):
            self._i = i
            self.id = sym.SId(i)

        def _vc_subst(self, a, b):
            return MakeDag.SHolder(z3.substitute(self._i, (a, b)))

    class SHolders(Sym):
        """the Python list `args` of ArgExecNodes (append only)"""

        def __init__(self, n, ids):
            self.n, self.ids = n, ids
            self._serial = C.next_serial()

        @staticmethod
        def fresh():
            n = C.fresh("len_args", I)
            C.assume(n >= 0)
            return MakeDag.SHolders(n, C.fresh("ids_args", z3.ArraySort(I, sym.Id)))

        def append(self, h):
            C.mutated[id(self)] = self
            self.ids = z3.Store(self.ids, self.n, h._i)
            self.n = self.n + 1

        def _vc_iter(self):
            n, ids = self.n, self.ids
            it = sym.SIter(I, lambda i: z3.And(i >= 0, i < n), lambda i: MakeDag.SHolder(ids[i]), count=n)
            it._indexed = (n, list)
            return it

    def inv(self, args, upto):
        from pyvc.sym import Id, Key, Val, bv

        g = C.ghost
        n1, pname, dname, dval, hold = g["n1"], g["pname"], g["dname"], g["dval"], g["hold"]
        R, r0 = g["results"], g["r0"]
        j, t = bv("j!md", I), bv("t!md", Id)
        if isinstance(args, sym.SSeq):
            n, at = args.n, (lambda q: args.at(q)._i)
        elif isinstance(args, MakeDag.SHolders):
            n, at = args.n, (lambda q: args.ids[q])
        else:
            raise ContractBindError("make_dag: `args` is not the list of argument holders")
        is_new = lambda t_: z3.Exists([j], z3.And(j >= 0, j < upto, hold(dname(j)) == t_))  # noqa: E731
        return [
            ("one_holder_per_parameter_in_signature_order", z3.And(n == n1 + upto, z3.ForAll([j], z3.Implies(z3.And(j >= 0, j < n1), at(j) == hold(pname(j)))), z3.ForAll([j], z3.Implies(z3.And(j >= 0, j < upto), at(n1 + j) == hold(dname(j))))), {"C01"}),
            ("defaults_are_stored_under_their_holders_ids", z3.ForAll([j], z3.Implies(z3.And(j >= 0, j < upto), z3.And(R.dom[hold(dname(j))], R.val[hold(dname(j))] == dval(j)))), {"C01", "C15"}),
            ("no_other_constant_is_stored", z3.ForAll([t], z3.Implies(z3.Not(is_new(t)), z3.And(R.dom[t] == r0[0][t], z3.Implies(r0[0][t], R.val[t] == r0[1][t])))), {"C01", "C15"}),
        ]

    def run(self, f, case):
        from contracts.nodeexec import SKeyStr
        from pyvc.sym import Id, Key, SInt, SIter, SMap, SSeq, SVal, Val, bv

        n1, n2 = C.fresh("n_positional", I), C.fresh("n_defaulted", I)
        C.assume(n1 >= 0, n2 >= 0)
        pname, dname = z3.Function("parameter_name", I, Key), z3.Function("defaulted_parameter_name", I, Key)
        dval = z3.Function("default_value", I, Val)
        hold = z3.Function("make_axn_id_of_parameter", Key, Id)
        a, b = bv("a!md", I), bv("b!md", I)
        # parameter names are distinct, holder ids are injective in the name (string-level, assumed)
        C.assume(z3.ForAll([a, b], z3.Implies(z3.And(a >= 0, a < n2, b >= 0, b < n2, hold(dname(a)) == hold(dname(b))), a == b)))
        C.assume(z3.ForAll([a, b], z3.Implies(z3.And(a >= 0, a < n1, b >= 0, b < n2), hold(pname(a)) != hold(dname(b)))))
        R = SMap.fresh("node.results", Id, Val, strict=True, on_missing="raise")
        T = SMap.fresh("node.exec_nodes", Id, Val, strict=True, on_missing="raise")
        r0, t0 = (R.dom, R.val), (T.dom, T.val)
        C.ghost.update(n1=n1, pname=pname, dname=dname, dval=dval, hold=hold, results=R, r0=r0)
        log = dict(func=[], wrap=[], ctor=[], update=[])
        holder_obj = z3.Function("ArgExecNode_of", Id, Val)

        class _Defaults(Sym):
            def items(self):
                it = SIter(I, lambda i: z3.And(i >= 0, i < n2), lambda i: (SKeyStr(dname(i)), SVal(dval(i))), count=n2)
                it._indexed = (n2, list)
                return it

        class _Func(Sym):
            _vc_star = True

            def __call__(self, star=()):
                log["func"].append(star)
                return "RETURNED"

        func = _Func()
        object.__setattr__(func, "__qualname__", "FUNC")

        class _Tables(Sym):
            def update(self_, other):
                log["update"].append(other)
                if not isinstance(other, MakeDag.SHolderDict):
                    raise ContractBindError("node.exec_nodes.update expects {holder.id: holder}")
                d0, v0 = T.dom, T.val
                T.havoc()
                tt, jj = bv("t!up", Id), bv("j!up", I)
                # "tt is one of the registered ids", Skolemised: pos(tt) is an index at which it occurs (no existential)
                pos = C.freshf("position_in_update", Id, I)
                C.ghost["update_pos"] = pos
                hit = lambda t_: z3.And(pos(t_) >= 0, pos(t_) < other.n, other.ids[pos(t_)] == t_)  # noqa: E731
                C.assume(z3.ForAll([jj], z3.Implies(z3.And(jj >= 0, jj < other.n), hit(other.ids[jj]))))
                C.assume(z3.ForAll([tt], z3.And(T.dom[tt] == z3.Or(d0[tt], hit(tt)), z3.Implies(z3.And(d0[tt], z3.Not(hit(tt))), T.val[tt] == v0[tt]), z3.Implies(hit(tt), T.val[tt] == holder_obj(tt)))))

        tables = _Tables()

        class _Node(Sym):
            results = R
            exec_nodes = tables

        def dictcomp(iterable, elt, cond):
            col = iterable._vc_iter()
            if cond is not None or getattr(col, "_indexed", None) is None:
                raise Unsupported("dict comprehension outside the modelled form")
            q = bv("q!dc", I)
            kk, vv = elt(col.elem(q))
            if not (isinstance(vv, MakeDag.SHolder) and z3.eq(kk.t, vv._i)):
                raise ContractBindError("make_dag: holders are expected to be registered under their own id")
            return MakeDag.SHolderDict(col._indexed[0], z3.Lambda([q], vv._i))

        C.ghost["dictcomp"] = dictcomp

        def ctor(flavour):
            def make(**kw):
                log["ctor"].append((flavour, kw))
                return f"THE-{flavour}-DAG"

            return make

        def wrap(fn, val):
            log["wrap"].append((fn, val))
            return "RETURN-UXNS"

        from contracts.nodebuild import SUxnCtor, uxn_terms

        f.__globals__.update({
            "get_args_and_default_args": lambda fn: (SSeq(n1, lambda i: SKeyStr(pname(i)), list, "func_args"), _Defaults()),
            "ArgExecNode": lambda i: MakeDag.SHolder(sym.term(i)), "make_axn_id": lambda qn, name: sym.SId(hold(sym.term(name))),
            "node": _Node, "UsageExecNode": SUxnCtor, "wrap_in_uxns": wrap, "DAG": ctor("sync"), "AsyncDAG": ctor("async"),
        })
        n = "make_dag"
        try:
            r = f(func, 7, case == "async")
        except KeyError:
            return "raises KeyError (a holder id is already used)"
        p = f"{n}.post"
        ok1 = len(log["func"]) == 1 and isinstance(log["func"][0], SSeq)
        C.check(z3.BoolVal(ok1), f"{p}.C01.the_describing_function_is_called_exactly_once_with_a_list_of_references", {"C01", "C03"}, "post")
        if not ok1:
            return "return"
        star = log["func"][0]
        j = bv("j!mp", I)
        ei, ek = uxn_terms(star.at(j))
        C.check(z3.And(star.n == n1 + n2, z3.ForAll([j], z3.Implies(z3.And(j >= 0, j < n1), z3.And(ei == hold(pname(j)), ek == sym.kp_empty))),
                       z3.ForAll([j], z3.Implies(z3.And(j >= n1, j < n1 + n2), z3.And(ei == hold(dname(j - n1)), ek == sym.kp_empty)))),
                f"{p}.C01.parameter_j_of_the_describing_function_receives_a_plain_reference_to_holder_j", {"C01"}, "post")
        for nm, goal, serves in self.inv(MakeDag.SHolders(n1 + n2, z3.Lambda([j], ei)), n2):
            C.check(goal, f"{p}.C01.{nm}", serves, "post")
        tt = bv("t!mp", Id)
        # "t is the holder of parameter number j" with ONE index over the whole signature (the same shape as the update's
        # own definition: the solver matches the two existentials index by index instead of guessing j - n1)
        holder_at = lambda q: z3.If(q < n1, hold(pname(q)), hold(dname(q - n1)))  # noqa: E731
        is_h = lambda t_: z3.Exists([j], z3.And(j >= 0, j < n1 + n2, holder_at(j) == t_))  # noqa: E731
        pos = C.ghost.get("update_pos")
        C.check(z3.ForAll([j], z3.Implies(z3.And(j >= 0, j < n1 + n2), T.dom[holder_at(j)])), f"{p}.C01.every_holder_is_registered_in_the_node_table", {"C01", "C03"}, "post")
        if pos is None:
            C.check(z3.ForAll([tt], z3.Implies(T.dom[tt], z3.Or(t0[0][tt], is_h(tt)))), f"{p}.C01.nothing_but_the_holders_is_registered", {"C01", "C03"}, "post")
        else:
            C.check(z3.ForAll([tt], z3.Implies(z3.And(T.dom[tt], z3.Not(t0[0][tt])), z3.And(pos(tt) >= 0, pos(tt) < n1 + n2, holder_at(pos(tt)) == tt))), f"{p}.C01.nothing_but_the_holders_is_registered", {"C01", "C03"}, "post")
        C.check(z3.BoolVal(log["wrap"] == [(func, "RETURNED")]), f"{p}.C01.the_returned_value_is_wrapped_into_return_references", {"C01"}, "post")
        ok2 = len(log["ctor"]) == 1 and log["ctor"][0][0] == case and r == f"THE-{case}-DAG"
        C.check(z3.BoolVal(ok2), f"{p}.C17.flavour_follows_is_async", {"C17", "C01"}, "post")
        if ok2:
            kw = log["ctor"][0][1]
            same = kw.get("results") is R and kw.get("exec_nodes") is tables and kw.get("input_uxns") is star and kw.get("return_uxns") == "RETURN-UXNS" and kw.get("max_concurrency") == 7 and kw.get("qualname") == "FUNC"
            C.check(z3.BoolVal(bool(same)), f"{p}.C01.the_dag_is_built_from_the_tables_the_description_filled", {"C01", "C04", "C15"}, "post")
        return "return"

    class SHolderDict(Sym):
        def __init__(self, n, ids):
            self.n, self.ids = n, ids
