"""Ownership contracts for C16 (thread safety): who may take the description branch, and the lock discipline of
threadsafe_make_dag.  Ghost state: which thread (if any) holds exec_nodes_lock and what `describing_thread` says."""
import z3

from pyvc import sym
from pyvc.core import C, ContractBindError, PathEnd, Unsupported
from pyvc.sym import B, I, SBool, SInt, Sym


class ThreadState:
    def __init__(self):
        self.me = C.fresh("me_thread", I)
        self.locked = C.fresh("lock_held", B)
        self.holder = C.fresh("lock_holder", I)
        self.dt_set = C.fresh("describing_thread_set", B)
        self.dt = C.fresh("describing_thread", I)
        # protocol invariant established by threadsafe_make_dag (contract below): describing_thread is only ever set
        # by the lock holder, to its own identity, and reset before the lock is released
        C.assume(z3.Implies(self.dt_set, z3.And(self.locked, self.dt == self.holder)))

    @property
    def me_is_builder(self):
        """the current thread is the one describing a DAG"""
        return z3.And(self.locked, self.holder == self.me, self.dt_set)


def thread_state():
    return ThreadState()


class OutOfScope(PathEnd):
    pass


class _Lock(Sym):
    def locked(self):
        return SBool(C.ghost["threads"].locked)

    def __enter__(self):
        ts = C.ghost["threads"]
        # acquiring blocks until the lock is free: afterwards this thread holds it
        C.ghost["lock_log"].append("acquire")
        ts.locked, ts.holder = z3.BoolVal(True), ts.me
        ts.dt_set = z3.BoolVal(False)  # protocol invariant: nobody left it set (checked at every release)
        return self

    def __exit__(self, *a):
        ts = C.ghost["threads"]
        C.check(z3.Not(ts.dt_set), "threadsafe_make_dag.lock_release.C16.describing_thread_reset_before_release", {"C16"}, "assert")
        C.ghost["lock_log"].append("release")
        ts.locked = z3.BoolVal(False)
        return False


class _Prefix(Sym):
    def append(self, v):
        ts = C.ghost["threads"]
        C.check(ts.me_is_builder, "describe_branch.C16.entered_only_by_the_describing_thread", {"C16"}, "assert")
        raise OutOfScope("describe branch (bounded stand-in)")


class SNodeModule(Sym):
    """the module tawazi.node.node as seen by DAG.__call__ / constructor: build globals + lock"""

    def __init__(self):
        object.__setattr__(self, "exec_nodes_lock", _Lock())
        object.__setattr__(self, "DAG_PREFIX", _Prefix())

    def in_description_context(self):
        # contract of node.in_description_context (verified below against its real body)
        return SBool(C.ghost["threads"].me_is_builder)

    def __setattr__(self, name, value):
        ts = C.ghost["threads"]
        if name == "describing_thread":
            C.check(z3.And(ts.locked, ts.holder == ts.me), "describing_thread.C16.written_only_by_the_lock_holder", {"C16"}, "assert")
            if value is None:
                ts.dt_set = z3.BoolVal(False)
            else:
                ts.dt_set, ts.dt = z3.BoolVal(True), sym.ti(value)
            return
        object.__setattr__(self, name, value)

    def __getattr__(self, name):
        if name == "describing_thread":
            ts = C.ghost["threads"]
            return SOptInt(ts.dt_set, ts.dt)
        raise Unsupported(f"node.{name}")


class SOptInt(Sym):
    def __init__(self, has, t):
        self.has, self.t = has, t

    def __eq__(self, o):
        if o is None:
            return SBool(z3.Not(self.has))
        return SBool(z3.And(self.has, self.t == sym.ti(o)))

    def _is_none(self):
        return SBool(z3.Not(self.has))


class InDescriptionContext:
    module = "tawazi.node.node"
    qualname = "in_description_context"
    loops = {}

    def namespace(self):
        class _L(Sym):
            def locked(self):
                return SBool(C.ghost["threads"].locked)

        return {"exec_nodes_lock": _L(), "describing_thread": None, "get_ident": lambda: SInt(C.ghost["threads"].me)}

    def run(self, f, case):
        ts = thread_state()
        C.ghost.update(threads=ts)
        f.__globals__["describing_thread"] = SOptInt(ts.dt_set, ts.dt)
        r = f()
        C.check(sym.tb(r) == z3.And(ts.locked, ts.dt_set, ts.dt == ts.me), "in_description_context.post.C16.true_iff_the_caller_is_the_describing_thread", {"C16"}, "post")
        C.check(z3.Implies(sym.tb(r), ts.me_is_builder), "in_description_context.post.C16.implies_caller_holds_the_build_lock", {"C16"}, "post")
        return "return"


class ThreadsafeMakeDag:
    module = "tawazi._dag.constructor"
    qualname = "threadsafe_make_dag"
    loops = {}

    def cases(self):
        return ["normal", "describing-function-raises"]

    def namespace(self):
        def wrap(_func, max_concurrency, is_async):
            ts = C.ghost["threads"]
            C.check(z3.And(ts.locked, ts.holder == ts.me), "threadsafe_make_dag.C16.description_runs_under_the_lock", {"C16"}, "assert")
            C.check(z3.And(ts.dt_set, ts.dt == ts.me), "threadsafe_make_dag.C16.describing_thread_is_the_builder_during_the_description", {"C16"}, "assert")
            C.ghost["wrap_calls"].append((_func, max_concurrency, is_async))
            if C.ghost["case"] == "describing-function-raises":
                raise ValueError("describing function failed")
            return "THE_DAG"

        return {"node": SNodeModule(), "wrap_make_dag": wrap, "get_ident": lambda: SInt(C.ghost["threads"].me)}

    def run(self, f, case):
        ts = thread_state()
        C.ghost.update(threads=ts, lock_log=[], wrap_calls=[], case=case)
        C.assume(z3.Not(z3.And(ts.locked, ts.holder == ts.me)))  # a thread does not build a DAG while building a DAG
        try:
            r = f("FUNC", 3, False)
        except ValueError:
            r = None
        C.check(z3.BoolVal(C.ghost["lock_log"] == ["acquire", "release"]), "threadsafe_make_dag.post.C16.lock_taken_and_released_on_every_exit_path", {"C16"}, "post")
        C.check(z3.Not(ts.dt_set), "threadsafe_make_dag.post.C16.describing_thread_reset_on_every_exit_path", {"C16"}, "post")
        C.check(z3.BoolVal(C.ghost["wrap_calls"] == [("FUNC", 3, False)]), "threadsafe_make_dag.post.builds_exactly_one_dag_with_the_given_parameters", {"C16", "C01"}, "post")
        if case == "normal":
            C.check(z3.BoolVal(r == "THE_DAG"), "threadsafe_make_dag.post.returns_the_built_dag", {"C01"}, "post")
        return "return"


class WrapMakeDag:
    """wrap_make_dag: the three build globals are fresh and empty when the description starts and are replaced by fresh
    empty ones on EVERY exit path, so that a DAG owns its tables and nothing leaks into the next build"""

    module = "tawazi._dag.constructor"
    qualname = "wrap_make_dag"
    loops = {}

    def cases(self):
        return ["normal", "describing-function-raises", "recursion-NameError"]

    def run(self, f, case):
        class _SD:
            """StrictDict()"""

            def __init__(self, *a):
                self.fresh_empty = not a

        class _Node:
            pass

        node = _Node()
        node.exec_nodes, node.results, node.DAG_PREFIX = "STALE-TABLE", "STALE-RESULTS", ["stale-prefix"]
        log = {}

        def make_dag(_func, max_concurrency, is_async):
            log["at_call"] = (node.exec_nodes, node.results, node.DAG_PREFIX, _func, max_concurrency, is_async)
            # the description fills the tables it was given
            if case == "describing-function-raises":
                raise ValueError("describing function failed")
            if case == "recursion-NameError":
                raise NameError("name 'FUNC' is not defined")
            return "THE_DAG"

        class _Fn:
            __name__ = "FUNC"

        class _W:
            @staticmethod
            def warn(*a, **k):
                log["warned"] = True

        fn = _Fn()
        f.__globals__.update({"node": node, "StrictDict": _SD, "make_dag": make_dag, "warnings": _W})
        n = "wrap_make_dag"
        raised = None
        try:
            r = f(fn, 3, True)
        except (ValueError, NameError) as e:
            raised, r = e, None
        a = log.get("at_call")
        ok_call = a is not None and isinstance(a[0], _SD) and a[0].fresh_empty and isinstance(a[1], _SD) and a[1].fresh_empty and a[0] is not a[1] and a[2] == [] and a[3] is fn and a[4] == 3 and a[5] is True
        C.check(z3.BoolVal(bool(ok_call)), f"{n}.post.C15.description_starts_from_fresh_empty_tables_and_no_prefix", {"C15", "C16", "C20"}, "post")
        ok_after = isinstance(node.exec_nodes, _SD) and node.exec_nodes.fresh_empty and isinstance(node.results, _SD) and node.results.fresh_empty and node.DAG_PREFIX == []
        C.check(z3.BoolVal(bool(ok_after)), f"{n}.post.C16.build_globals_reset_on_every_exit_path", {"C16", "C15"}, "post")
        not_shared = a is not None and node.exec_nodes is not a[0] and node.results is not a[1] and node.DAG_PREFIX is not a[2]
        C.check(z3.BoolVal(bool(not_shared)), f"{n}.post.C15.the_dag_keeps_its_tables_the_globals_get_new_ones", {"C15", "C16"}, "post")
        if case == "normal":
            C.check(z3.BoolVal(r == "THE_DAG" and raised is None), f"{n}.post.returns_the_built_dag", {"C01"}, "post")
        else:
            C.check(z3.BoolVal(raised is not None), f"{n}.exceptional.C14.the_error_of_the_description_propagates", {"C14"}, "post")
        return "return" if raised is None else f"raises {type(raised).__name__}"
