"""Contracts of tawazi/node/functions.py: how the value returned by the describing function becomes the DAG's
return references (wrap_in_uxns and its helpers).  A reference is kept as it is (id and key path), a constant becomes
a holder node (ReturnExecNode) whose value is stored under the holder's id; the container shape is preserved."""
import z3

from contracts.nodebuild import (BuildState, SArg, SUxnCtor, SUxnDict, SUxnList, a_id, a_is_uxn, a_key, a_val, argnode_val, k_has, k_id, k_is_uxn, k_key,
                                 k_val, make_args_inv, slot_of, slot_pos, slot_kw, uxn_terms, Slot)
from contracts.nodeexec import SKeyStr
from pyvc import sym
from pyvc.core import C, ContractBindError, Unsupported
from pyvc.engine import LoopSpec
from pyvc.sym import B, I, Id, Key, KPath, SBool, SId, SInt, SIter, SMap, SSeq, STerm, SVal, Sym, Val, bv, kp_empty, term

x = bv("x!rw", Id)
ret_id = z3.Function("ReturnExecNode_id", Slot, Id)  # id of the holder of the i-th / k-th constant of the return value


def ret_axioms(n=None):
    """ASSUMED string facts: the holders of distinct positions / keys of one return value have distinct ids"""
    s1, s2 = bv("s1!rw", Slot), bv("s2!rw", Slot)
    a, b = bv("a!rw", I), bv("b!rw", I)
    k1, k2 = bv("k1!rw", Key), bv("k2!rw", Key)
    n = z3.IntVal(0) if n is None else n
    return [
        z3.ForAll([s1, s2], z3.Implies(ret_id(s1) == ret_id(s2), s1 == s2)),
        z3.ForAll([a, b], z3.Implies(z3.And(a >= 0, a < n, b >= 0, b < n, slot_pos(a) == slot_pos(b)), a == b)),
        z3.ForAll([k1, k2], z3.Implies(slot_kw(k1) == slot_kw(k2), k1 == k2)),
    ]


class SRetNode(Sym):
    def __init__(self, i):
        self._i = i
        self.id = SId(i)


class SNodeMod(Sym):
    """the module tawazi.node.node as seen from functions.py"""

    def __init__(self, st):
        self.exec_nodes, self.results = st.exec_nodes, st.results


def ns_for(st, func_token):
    def ReturnExecNode(func, name_or_order):
        if func is not func_token:
            raise ContractBindError("ReturnExecNode must be made for the describing function")
        i = ret_id(slot_of(name_or_order))
        st.created.append(i)
        return SRetNode(i)

    en = st.exec_nodes
    en.__class__ = type("SNodeTable", (SMap,), {"__setitem__": lambda s_, k, v_: SMap.__setitem__(s_, k, SVal(argnode_val(v_._i))) if isinstance(v_, SRetNode) else SMap.__setitem__(s_, k, v_)})
    return {"ReturnExecNode": ReturnExecNode, "UsageExecNode": SUxnCtor, "node": SNodeMod(st)}


class WrapInIteratorHelper:
    module = "tawazi.node.functions"
    qualname = "_wrap_in_iterator_helper"

    def __init__(self):
        self.loops = {0: self.Loop()}

    class Loop(LoopSpec):
        carried = ("l_uxn",)

        def modifies(self, env):
            st = C.ghost["st"]
            return [st.exec_nodes, st.results]

        def rebind(self, env):
            return {"l_uxn": SUxnList.fresh("l_uxn")}

        def inv(self, env, st):
            return make_args_inv(env["l_uxn"], st.nseen, holder=lambda q: ret_id(slot_pos(q)), what="_wrap_in_iterator_helper")

    def run(self, f, case):
        st = BuildState()
        func = object()
        f.__globals__.update(ns_for(st, func))
        n_ = C.fresh("n_returned", I)
        C.assume(n_ >= 0)
        C.assume(ret_axioms(n_))
        r_val = SSeq(n_, lambda j: SArg(a_is_uxn(j), a_id(j), a_key(j), a_val(j)), tuple, "r_val")
        C.ghost.update(st=st, site=C.fresh("unused", Id))
        n = "_wrap_in_iterator_helper"
        try:
            r = f(func, r_val)
        except KeyError:
            j = bv("j!ma", I)
            d0 = st.s0
            C.check(z3.Exists([j], z3.And(j >= 0, j < n_, z3.Not(a_is_uxn(j)), z3.Or(d0[0][ret_id(slot_pos(j))], d0[2][ret_id(slot_pos(j))]))), f"{n}.exceptional.KeyError_only_if_a_holder_id_is_already_used", {"C03"}, "post")
            return "raises KeyError"
        for nm, goal, serves in make_args_inv(r, n_, holder=lambda q: ret_id(slot_pos(q)), what=n):
            C.check(goal, f"{n}.post.C01.{nm}", serves, "post")
        return "return"


class WrapInSeq:
    """_wrap_in_list / _wrap_in_tuple"""

    module = "tawazi.node.functions"
    loops = {}

    def __init__(self, kind):
        self.kind = kind
        self.qualname = f"_wrap_in_{kind}"

    def cases(self):
        return ["list", "tuple", "other"]

    def run(self, f, case):
        real = {"list": list, "tuple": tuple}[self.kind]
        log = []

        class _RVal(Sym):
            def _vc_isinstance(self, cls):
                classes = cls if isinstance(cls, tuple) else (cls,)
                return {"list": list, "tuple": tuple, "other": dict}[case] in classes

        def helper(func, r_val):
            log.append((func, r_val))
            return SUxnList.fresh("wrapped")

        f.__globals__.update({"_wrap_in_iterator_helper": helper})
        func, rv = object(), _RVal()
        r = f(func, rv)
        n = self.qualname
        if case != self.kind:
            C.check(z3.BoolVal(r is None and not log), f"{n}.post.C01.only_a_{self.kind}_is_wrapped_as_a_{self.kind}", {"C01"}, "post")
            return "return None"
        ok = isinstance(r, SUxnList) and r.kind is real and len(log) == 1 and log[0][0] is func and log[0][1] is rv
        C.check(z3.BoolVal(ok), f"{n}.post.C01.a_{self.kind}_of_the_wrapped_elements_in_order", {"C01"}, "post")
        return "return"


class WrapInDict:
    module = "tawazi.node.functions"
    qualname = "_wrap_in_dict"

    def __init__(self):
        self.loops = {0: self.Loop()}

    class Loop(LoopSpec):
        carried = ("d_uxn",)

        def modifies(self, env):
            st = C.ghost["st"]
            return [st.exec_nodes, st.results]

        def rebind(self, env):
            d = SUxnDict("d_uxn")
            d.havoc()
            return {"d_uxn": d}

        def inv(self, env, st):
            return wrap_dict_inv(env["d_uxn"], lambda k: st.seen[k])

    def cases(self):
        return ["dict", "other"]

    def run(self, f, case):
        st = BuildState()
        func = object()
        f.__globals__.update(ns_for(st, func))
        C.assume(ret_axioms())
        C.ghost.update(st=st)

        class _RDict(Sym):
            def _vc_isinstance(self, cls):
                classes = cls if isinstance(cls, tuple) else (cls,)
                return (dict if case == "dict" else list) in classes

            def items(self):
                return SIter(Key, lambda k: k_has(k), lambda k: (SKeyStr(k), SArg(k_is_uxn(k), k_id(k), k_key(k), k_val(k))))

        n = "_wrap_in_dict"
        try:
            r = f(func, _RDict())
        except KeyError:
            return "raises KeyError"
        if case != "dict":
            C.check(z3.BoolVal(r is None), f"{n}.post.C01.only_a_dict_is_wrapped_as_a_dict", {"C01"}, "post")
            C.check(st.untouched(), f"{n}.post.nothing_registered_for_a_non_dict", {"C01", "C15"}, "post")
            return "return None"
        for nm, goal, serves in wrap_dict_inv(r, lambda k: k_has(k)):
            C.check(goal, f"{n}.post.C01.{nm}", serves, "post")
        return "return"


def wrap_dict_inv(dct, seen):
    st = C.ghost["st"]
    k = bv("k!wd", Key)
    d0 = st.s0
    en, rs = st.exec_nodes, st.results
    if isinstance(dct, dict):
        if dct:
            raise ContractBindError("_wrap_in_dict: the dict of references is expected to start empty")
        dom, ids, keys = z3.K(Key, False), z3.K(Key, ret_id(slot_pos(z3.IntVal(0)))), z3.K(Key, kp_empty)
    elif isinstance(dct, SUxnDict):
        dom, ids, keys = dct.dom, dct.ids, dct.keys
    else:
        raise ContractBindError("_wrap_in_dict: unexpected result type")
    holder = lambda q: ret_id(slot_kw(q))  # noqa: E731
    given = lambda q: z3.And(seen(q), k_has(q))  # noqa: E731
    is_new = lambda t: z3.Exists([k], z3.And(given(k), z3.Not(k_is_uxn(k)), holder(k) == t))  # noqa: E731
    return [
        ("same_keys_as_the_returned_dict", z3.ForAll([k], dom[k] == given(k)), {"C01"}),
        ("a_reference_is_passed_through_unchanged", z3.ForAll([k], z3.Implies(z3.And(given(k), k_is_uxn(k)), z3.And(ids[k] == k_id(k), keys[k] == k_key(k)))), {"C01"}),
        ("a_constant_becomes_a_plain_reference_to_its_holder", z3.ForAll([k], z3.Implies(z3.And(given(k), z3.Not(k_is_uxn(k))), z3.And(ids[k] == holder(k), keys[k] == kp_empty))), {"C01"}),
        ("the_constant_is_stored_under_the_holders_id", z3.ForAll([k], z3.Implies(z3.And(given(k), z3.Not(k_is_uxn(k))), z3.And(rs.dom[holder(k)], rs.val[holder(k)] == k_val(k), en.dom[holder(k)]))), {"C01"}),
        ("nothing_else_is_registered", z3.ForAll([x], z3.Implies(z3.Not(is_new(x)), z3.And(en.dom[x] == d0[0][x], rs.dom[x] == d0[2][x], z3.Implies(d0[2][x], rs.val[x] == d0[3][x])))), {"C01", "C15"}),
    ]


class WrapInUxn:
    module = "tawazi.node.functions"
    qualname = "_wrap_in_uxn"
    loops = {}

    def run(self, f, case):
        st = BuildState()
        func = object()
        f.__globals__.update(ns_for(st, func))
        is_u, i_, k_, v_ = C.fresh("is_reference", B), C.fresh("ref_id", Id), C.fresh("ref_key", KPath), C.fresh("constant", Val)
        d0 = st.s0
        n = "_wrap_in_uxn"
        holder = ret_id(slot_pos(z3.IntVal(0)))
        try:
            r = f(func, SArg(is_u, i_, k_, v_))
        except KeyError:
            C.check(z3.And(z3.Not(is_u), z3.Or(d0[0][holder], d0[2][holder])), f"{n}.exceptional.KeyError_only_if_the_holder_id_is_already_used", {"C03"}, "post")
            return "raises KeyError"
        ri, rk = uxn_terms(r)
        C.check(z3.Implies(is_u, z3.And(ri == i_, rk == k_, st.untouched())), f"{n}.post.C01.a_reference_is_returned_unchanged", {"C01"}, "post")
        C.check(z3.Implies(z3.Not(is_u), z3.And(ri == holder, rk == kp_empty, st.results.dom[holder], st.results.val[holder] == v_, st.exec_nodes.dom[holder])), f"{n}.post.C01.a_constant_is_stored_under_its_holder", {"C01"}, "post")
        return "return"


class WrapInUxns:
    module = "tawazi.node.functions"
    qualname = "wrap_in_uxns"
    loops = {}

    def cases(self):
        return ["None", "list", "tuple", "dict", "single"]

    def run(self, f, case):
        log = []

        def mk(kind):
            def stub(func, r_val):
                log.append((kind, func, r_val))
                return f"WRAPPED-{kind}" if (kind == case or kind == "single") else None

            return stub

        f.__globals__.update({"_wrap_in_list": mk("list"), "_wrap_in_tuple": mk("tuple"), "_wrap_in_dict": mk("dict"), "_wrap_in_uxn": mk("single")})

        class _RVal(Sym):
            pass

        func = object()
        rv = None if case == "None" else _RVal()
        r = f(func, rv)
        n = "wrap_in_uxns"
        if case == "None":
            C.check(z3.BoolVal(r is None and not log), f"{n}.post.C01.None_stays_None", {"C01"}, "post")
            return "return None"
        C.check(z3.BoolVal(r == f"WRAPPED-{case}"), f"{n}.post.C01.return_shape_is_kept_{case}", {"C01", "C20"}, "post")
        C.check(z3.BoolVal(all(e[1] is func and e[2] is rv for e in log)), f"{n}.post.C01.the_returned_value_itself_is_wrapped", {"C01"}, "post")
        return "return"


class Reflected:
    """tawazi/node/extend.py reflected(op): reflected(op)(a, b) == op(b, a) -- `cst OP result` is evaluated as Python
    would (the constant stays the LEFT operand)"""

    module = "tawazi.node.extend"
    qualname = "reflected"
    loops = {}

    def run(self, f, case):
        calls = []
        a, b = SVal(C.fresh("a", Val)), SVal(C.fresh("b", Val))
        res = SVal(C.fresh("op_result", Val))

        def op(x_, y_):
            calls.append((x_, y_))
            return res

        g = f(op)
        r = g(a, b)
        ok = len(calls) == 1 and calls[0][0] is b and calls[0][1] is a and r is res
        C.check(z3.BoolVal(ok), "reflected.post.C01.reflected_operator_swaps_its_operands_back", {"C01"}, "post")
        return "return"
