"""Contracts of the graph functions of tawazi/_dag/digraph.py (selection, debug rules, compound priority)."""
import z3

from contracts.digraph_sched import RemoveRootNode, RootNodes, SDiGraphEx
from pyvc import lib, sym
from pyvc.core import C, ContractBindError, Unsupported
from pyvc.engine import LoopSpec
from pyvc.lib import E, NetworkXError, NxModule, Reach, deepcopy_graph, reach_theory
from pyvc.sym import B, I, Id, SBool, SId, SInt, SIter, SList, SMap, SSet, Sym, bv, setsum, term

x, u, v, w = bv("x!g", Id), bv("u!g", Id), bv("v!g", Id), bv("w!g", Id)


# ---- spec functions ----------------------------------------------------------------------------------------------------
def dstar(N, S, t):
    """t is a member of S or depends (transitively, inside N) on a member of S"""
    s = bv("s!ds", Id)
    return z3.Exists([s], z3.And(S.mem(s), Reach(N, s, t)))


def anc_or_self(N, T, t):
    s = bv("s!an", Id)
    return z3.Exists([s], z3.And(T.mem(s), Reach(N, t, s)))


def strict_anc(N, T, t):
    s = bv("s!an", Id)
    return z3.Exists([s], z3.And(T.mem(s), Reach(N, t, s), t != s))


def is_leaf(N, t):
    return z3.And(N[t], z3.ForAll([w], z3.Implies(N[w], z3.Not(E(t, w)))))


def mem_of(L):
    return L.s if isinstance(L, SList) else sym.as_set(L, Id)


def fresh_list(name):
    return SList.fresh(name, Id)


def in_graph_or_obligation(g, t, what):
    if C.binder:
        C.check(g.N[t], f"{what}.pre.node_in_graph", {"C12", "C14"}, "pre")
    else:
        lib._in_graph(g, t, what)


_orig_in_graph = lib._in_graph


def _in_graph_binder_aware(g, t, what):
    if C.binder:
        C.check(g.N[t], f"{what}.pre.node_in_graph", {"C12", "C14"}, "pre")
        return
    _orig_in_graph(g, t, what)


lib._in_graph = _in_graph_binder_aware


# ---- contract stubs installed on the proxy (contract layer) --------------------------------------------------------------
def stub_single_node_successors(g, n):
    t = term(n)
    lib._in_graph(g, t, "single_node_successors")
    reach_theory().register(g.N)
    N = g.N
    r = SList(SSet.define("succ_closure", Id, lambda q: Reach(N, t, q)))
    return r


def stub_multiple_nodes_successors(g, ids):
    S = mem_of(ids)
    C.check(z3.ForAll([x], z3.Implies(S.mem(x), g.N[x])), "multiple_nodes_successors.pre.nodes_in_graph", {"C12", "C14"}, "pre")
    C.assume(z3.ForAll([x], z3.Implies(S.mem(x), g.N[x])))
    reach_theory().register(g.N)
    N = g.N
    return SSet.define("dstar", Id, lambda q: dstar(N, S, q))


def stub_ancestors_of_iter(g, nodes):
    T = mem_of(nodes)
    C.check(z3.ForAll([x], z3.Implies(T.mem(x), g.N[x])), "ancestors_of_iter.pre.nodes_in_graph", {"C12", "C14"}, "pre")
    C.assume(z3.ForAll([x], z3.Implies(T.mem(x), g.N[x])))
    reach_theory().register(g.N)
    N = g.N
    return SSet.define("ancestors", Id, lambda q: strict_anc(N, T, q))


def stub_minimal_induced_subgraph(g, nodes):
    T = mem_of(nodes)
    if C.fork(z3.Exists([x], z3.And(T.mem(x), z3.Not(g.N[x]))), "minimal_induced_subgraph: a node is not in the graph"):
        raise ValueError("The provided nodes are not in the graph.")
    reach_theory().register(g.N)
    N = g.N
    r = SDiGraphEx(name="induced_view")
    lib._empty_tables(r)
    r.is_view = True
    C.assume(z3.ForAll([x], r.N[x] == z3.And(N[x], anc_or_self(N, T, x))), r.cN <= g.cN)
    return r


def stub_leaf_nodes(g):
    N = g.N
    return SList(SSet.define("leaves", Id, lambda q: is_leaf(N, q)))


def stub_debug_nodes(g):
    d = g.debug.val
    return SList(SSet.define("debug_nodes", Id, lambda q: d[q]))


def stub_setup_nodes(g):
    d = g.setup.val
    r = SList(SSet.define("setup_nodes", Id, lambda q: d[q]))
    r.is_all_setup = True
    return r


def closed_form_spec(g, N, T, X, R):
    """C12's documented closure over the reachability of the ORIGINAL graph (node set N)"""
    A = (lambda t: dstar(N, mem_of(R), t)) if R is not None else (lambda t: N[t])
    DX = (lambda t: dstar(N, mem_of(X), t)) if X is not None else (lambda t: z3.BoolVal(False))
    Bs = lambda t: z3.And(A(t), z3.Not(DX(t)))  # noqa: E731
    res = (lambda t: z3.And(Bs(t), anc_or_self(N, mem_of(T), t))) if T is not None else Bs
    roots_ok = z3.ForAll([x], z3.Implies(mem_of(R).mem(x), g.is_root(x, N))) if R is not None else z3.BoolVal(True)
    targets_ok = z3.ForAll([x], z3.Implies(mem_of(T).mem(x), Bs(x))) if T is not None else z3.BoolVal(True)
    x_in_A = z3.ForAll([x], z3.Implies(mem_of(X).mem(x), A(x))) if X is not None else z3.BoolVal(True)
    return A, DX, Bs, res, roots_ok, targets_ok, x_in_A


def stub_make_subgraph(g, T, X, R):
    """summary contract of DiGraphEx.make_subgraph as proved by MakeSubgraph below"""
    N = g.N
    reach_theory().register(N)
    A, DX, Bs, res, roots_ok, targets_ok, x_in_A = closed_form_spec(g, N, T, X, R)
    if not C.fork(roots_ok, "make_subgraph: roots are roots"):
        raise ValueError("nodes aren't root nodes")
    if not C.fork(x_in_A, "make_subgraph: excluded nodes inside the selected part"):
        raise NetworkXError("an excluded node is not in the graph selected by the roots")
    if not C.fork(targets_ok, "make_subgraph: targets inside the selection"):
        raise ValueError("The provided nodes are not in the graph.")
    r = SDiGraphEx(name="selection", tables=dict(compound_priority=g.compound_priority.clone(), debug=g.debug.clone(), setup=g.setup.clone(), tag=g.tag.clone()))
    r.owner = "fresh"
    C.assume(z3.ForAll([x], r.N[x] == res(x)), r.cN <= g.cN)
    r.selection_of = (g, T, X, R)
    return r


def include_debug_nodes_post(g, L0mem, L1mem):
    dbg = g.debug.val
    return [
        ("superset", z3.ForAll([x], z3.Implies(L0mem(x), L1mem(x))), {"C13"}),
        ("added_are_debug_nodes_of_the_graph", z3.ForAll([x], z3.Implies(z3.And(L1mem(x), z3.Not(L0mem(x))), z3.And(dbg[x], g.N[x]))), {"C13"}),
        ("added_have_all_inputs_selected", z3.ForAll([x, u], z3.Implies(z3.And(L1mem(x), z3.Not(L0mem(x)), g.N[u], E(u, x)), L1mem(u))), {"C13"}),
    ]


def stub_include_debug_nodes(g, leaves):
    if not isinstance(leaves, SList):
        raise ContractBindError("include_debug_nodes: leaves_ids is not a list")
    C.check(z3.ForAll([x], z3.Implies(leaves.s.mem(x), g.N[x])), "include_debug_nodes.pre.leaves_in_graph", {"C13", "C14"}, "pre")
    a0 = leaves.s.a
    leaves.havoc()
    C.mutated[id(leaves)] = leaves
    for _, f, _ in include_debug_nodes_post(g, lambda t: a0[t], leaves.s.mem):
        C.assume(f)
    return leaves


for _n, _f in dict(single_node_successors=stub_single_node_successors, multiple_nodes_successors=stub_multiple_nodes_successors, ancestors_of_iter=stub_ancestors_of_iter,
                   minimal_induced_subgraph=stub_minimal_induced_subgraph, include_debug_nodes=stub_include_debug_nodes).items():
    setattr(SDiGraphEx, _n, _f)
SDiGraphEx.leaf_nodes = property(stub_leaf_nodes)
SDiGraphEx.debug_nodes = property(stub_debug_nodes)
SDiGraphEx.setup_nodes = property(stub_setup_nodes)


def table_items(m):
    """defaultdict.items(): ranges over the keys ever written or read; only the non-default entries matter to the
    callers (they filter on the value)"""
    keys = C.fresh("table_keys", sym.SetSort(Id))
    C.assume(z3.ForAll([x], z3.Implies(m.val[x] != m.default, keys[x])))
    return SIter(Id, lambda q: keys[q], lambda q: (SId(q), m.wrapv(m.val[q])), distinct=True)


def _default_items(self):
    if self.default is None:
        return SMap._plain_items(self)
    return table_items(self)


SMap._plain_items = SMap.items
SMap.items = _default_items


def common_ns():
    return {"nx": NxModule(), "deepcopy": _deepcopy, "chain": lib.vc_chain}


def _deepcopy(o):
    if isinstance(o, SDiGraphEx):
        return deepcopy_graph(o)
    if isinstance(o, SMap):
        return o.clone()
    raise Unsupported(f"deepcopy of {type(o).__name__}")


def new_graph(name="self"):
    g = SDiGraphEx(name=name)
    g.owner = "dag"
    return g


def snapshot(g):
    return (g.N, g.cN, g.compound_priority.val, g.debug.val, g.setup.val, g.tag.val)


def unchanged(g, snap):
    return z3.And(g.N == snap[0], g.cN == snap[1], g.compound_priority.val == snap[2], g.debug.val == snap[3], g.setup.val == snap[4], g.tag.val == snap[5])


# ====================================================================================================================
class SimpleQuery:
    """leaf_nodes / debug_nodes / setup_nodes / single_node_successors / multiple_nodes_successors / ancestors_of_iter"""

    module = "tawazi._dag.digraph"
    loops = {}

    def __init__(self, which):
        self.which = which
        self.qualname = f"DiGraphEx.{which}"

    def namespace(self):
        return common_ns()

    def run(self, f, case):
        g = new_graph()
        snap = snapshot(g)
        reach_theory().register(g.N)
        N = g.N
        wch = self.which
        p = f"{wch}.post"
        if wch in ("leaf_nodes", "debug_nodes", "setup_nodes"):
            r = mem_of(f(g))
            spec = {"leaf_nodes": lambda t: is_leaf(N, t), "debug_nodes": lambda t: g.debug.val[t], "setup_nodes": lambda t: g.setup.val[t]}[wch]
            C.check(z3.ForAll([x], r.mem(x) == spec(x)), f"{p}.exactly_the_{wch}", {"C13", "C11", "C12"}, "post")
        elif wch == "single_node_successors":
            n = C.fresh("n", Id)
            try:
                r = mem_of(f(g, SId(n)))
            except NetworkXError:
                C.check(z3.Not(N[n]), f"{wch}.exceptional.only_for_a_node_outside_the_graph", {"C12"}, "post")
                return "raises"
            C.check(z3.ForAll([x], r.mem(x) == Reach(N, n, x)), f"{p}.C12.node_and_everything_depending_on_it", {"C12"}, "post")
        elif wch == "multiple_nodes_successors":
            S = fresh_list("ids")
            C.assume(z3.ForAll([x], z3.Implies(S.s.mem(x), N[x])))
            r = mem_of(f(g, S))
            C.check(z3.ForAll([x], r.mem(x) == dstar(N, S.s, x)), f"{p}.C12.nodes_and_everything_depending_on_them", {"C12"}, "post")
        elif wch == "ancestors_of_iter":
            S = fresh_list("nodes")
            C.assume(z3.ForAll([x], z3.Implies(S.s.mem(x), N[x])))
            r = mem_of(f(g, S))
            C.check(z3.ForAll([x], r.mem(x) == strict_anc(N, S.s, x)), f"{p}.C12.strict_ancestors_of_the_nodes", {"C12", "C19"}, "post")
        C.check(unchanged(g, snap), f"{wch}.frame.C15.graph_untouched", {"C15"}, "frame")
        return "return"


class MinimalInducedSubgraph:
    module = "tawazi._dag.digraph"
    qualname = "DiGraphEx.minimal_induced_subgraph"
    loops = {}

    def namespace(self):
        return common_ns()

    def run(self, f, case):
        g = new_graph()
        snap = snapshot(g)
        reach_theory().register(g.N)
        N = g.N
        T = fresh_list("nodes")
        try:
            r = f(g, T)
        except ValueError:
            C.check(z3.Exists([x], z3.And(T.s.mem(x), z3.Not(N[x]))), "minimal_induced_subgraph.exceptional.C12.ValueError_iff_a_node_is_not_in_the_graph", {"C12"}, "post")
            return "raises ValueError"
        C.check(z3.ForAll([x], z3.Implies(T.s.mem(x), N[x])), "minimal_induced_subgraph.post.C12.unknown_nodes_are_refused", {"C12"}, "post")
        C.check(z3.ForAll([x], r.N[x] == z3.And(N[x], anc_or_self(N, T.s, x))), "minimal_induced_subgraph.post.C12.nodes_and_their_ancestors", {"C12"}, "post")
        C.check(unchanged(g, snap), "minimal_induced_subgraph.frame.C15.graph_untouched", {"C15"}, "frame")
        return "return"


# ---- make_subgraph ---------------------------------------------------------------------------------------------------
class MakeSubgraph:
    module = "tawazi._dag.digraph"
    qualname = "DiGraphEx.make_subgraph"
    loops = {}

    def cases(self):
        return [f"T={t},X={x_},R={r}" for t in "01" for x_ in "01" for r in "01"]

    def namespace(self):
        return common_ns()

    def run(self, f, case):
        hasT, hasX, hasR = (c == "1" for c in (case[2], case[6], case[10]))
        g = new_graph()
        snap = snapshot(g)
        reach_theory().register(g.N)
        N = g.N
        T = fresh_list("target_nodes") if hasT else None
        X = fresh_list("exclude_nodes") if hasX else None
        R = fresh_list("root_nodes") if hasR else None
        A, DX, Bs, res, roots_ok, targets_ok, x_in_A = closed_form_spec(g, N, T, X, R)
        # the property's own restriction: every excluded node lies inside the part selected by R
        C.assume(x_in_A)
        name = "make_subgraph"
        try:
            r = f(g, T, X, R)
        except ValueError:
            C.check(z3.Not(z3.And(roots_ok, targets_ok)), f"{name}.exceptional.C12.ValueError_only_for_a_non_root_or_a_target_outside_the_selection", {"C12"}, "post")
            C.check(unchanged(g, snap), f"{name}.exceptional.C15.graph_untouched", {"C15"}, "frame")
            return "raises ValueError"
        C.check(roots_ok, f"{name}.post.C12.non_roots_are_refused", {"C12"}, "post")
        C.check(targets_ok, f"{name}.post.C12.targets_outside_the_selection_are_refused", {"C12"}, "post")
        if not isinstance(r, SDiGraphEx):
            raise ContractBindError("make_subgraph does not return a graph")
        C.check(z3.BoolVal(r is not g and getattr(r, "owner", None) == "fresh" and not getattr(r, "is_view", False)), f"{name}.post.C15.returns_a_fresh_independent_graph", {"C15", "C16"}, "post")
        C.check(z3.ForAll([x], z3.Implies(r.N[x], res(x))), f"{name}.post.C12.nothing_outside_the_documented_closure", {"C12", "C03"}, "post")
        C.check(z3.ForAll([x], z3.Implies(res(x), r.N[x])), f"{name}.post.C12.everything_in_the_documented_closure", {"C12", "C03"}, "post")
        C.check(r.compound_priority.val == snap[2], f"{name}.post.C06.compound_priority_table_carried", {"C06", "C07"}, "post")
        C.check(r.debug.val == snap[3], f"{name}.post.C13.debug_table_carried", {"C13"}, "post")
        C.check(r.setup.val == snap[4], f"{name}.post.C11.setup_table_carried", {"C11"}, "post")
        C.check(r.tag.val == snap[5], f"{name}.post.C12.tag_table_carried", {"C12"}, "post")
        shared = any(getattr(r, tn) is getattr(g, tn) for tn in ("compound_priority", "debug", "setup", "tag"))
        C.check(z3.BoolVal(not shared), f"{name}.post.C15.tables_not_shared_with_the_dag", {"C15"}, "post")
        C.check(unchanged(g, snap), f"{name}.frame.C15.dag_graph_untouched", {"C15", "C12"}, "frame")
        return "return"


# ---- include_debug_nodes ----------------------------------------------------------------------------------------------
class IncludeDebugNodes:
    module = "tawazi._dag.digraph"
    qualname = "DiGraphEx.include_debug_nodes"

    def __init__(self):
        self.loops = {0: self.Outer(), 1: self.Inner(1), 2: self.Inner(2)}

    @staticmethod
    def inv_common(env):
        g, L, a0 = C.ghost["g"], env["leaves_ids"], C.ghost["L0"]
        if L is not C.ghost["L"]:
            raise ContractBindError("include_debug_nodes: leaves_ids was re-bound")
        return include_debug_nodes_post(g, lambda t: a0[t], L.s.mem) + [("leaves_in_graph", z3.ForAll([x], z3.Implies(L.s.mem(x), g.N[x])), {"C13", "C14"})]

    # ---- completeness (the result is a FIXED POINT; C03: a debug node that belongs to the documented selection runs) ----
    # blocked(s, L): some predecessor of s in the graph is not in L
    @staticmethod
    def blocked(g, Lmem, s_):
        p_ = bv("p!idn", Id)
        return z3.Exists([p_], z3.And(g.N[p_], E(p_, s_), z3.Not(Lmem(p_))))

    @staticmethod
    def settled(g, Lmem, s_):
        """s needs no further consideration w.r.t. L: it is in L, or not a debug node of the graph, or blocked"""
        return z3.Or(Lmem(s_), z3.Not(g.debug.val[s_]), z3.Not(g.N[s_]), IncludeDebugNodes.blocked(g, Lmem, s_))

    @staticmethod
    def disc_term(env):
        d = env["new_debug_xn_discovered"]
        return d.t if isinstance(d, SBool) else z3.BoolVal(bool(d))

    class Outer(LoopSpec):
        carried = ("new_debug_xn_discovered",)

        def modifies(self, env):
            return [env["leaves_ids"]]

        def rebind(self, env):
            return {"new_debug_xn_discovered": SBool(C.fresh("discovered", B))}

        def inv(self, env, st):
            g, L = C.ghost["g"], env["leaves_ids"]
            u_, s_ = bv("u!idn", Id), bv("s!idn", Id)
            closed = z3.ForAll([u_, s_], z3.Implies(z3.And(L.s.mem(u_), E(u_, s_)), IncludeDebugNodes.settled(g, L.s.mem, s_)))
            return IncludeDebugNodes.inv_common(env) + [("a_pass_without_discovery_means_closed", z3.Implies(z3.Not(IncludeDebugNodes.disc_term(env)), closed), {"C03", "C13"})]

    class Inner(LoopSpec):
        carried = ("new_debug_xn_discovered",)

        def __init__(self, k):
            self.k = k

        def modifies(self, env):
            return [env["leaves_ids"]]

        def rebind(self, env):
            return {"new_debug_xn_discovered": SBool(C.fresh("discovered", B))}

        def inv(self, env, st):
            g, L = C.ghost["g"], env["leaves_ids"]
            u_, s_ = bv("u!idn", Id), bv("s!idn", Id)
            nd = z3.Not(IncludeDebugNodes.disc_term(env))
            st1 = st if self.k == 1 else C.loop_states[1]
            cl = [("no_discovery_so_far_means_visited_leaves_are_closed",
                   z3.Implies(nd, z3.ForAll([u_, s_], z3.Implies(z3.And(st1.seen[u_], E(u_, s_)), IncludeDebugNodes.settled(g, L.s.mem, s_)))), {"C03", "C13"})]
            if self.k == 2:
                cl.append(("no_discovery_so_far_means_visited_successors_are_settled",
                           z3.Implies(nd, z3.ForAll([s_], z3.Implies(st.seen[s_], IncludeDebugNodes.settled(g, L.s.mem, s_)))), {"C03", "C13"}))
            return IncludeDebugNodes.inv_common(env) + cl

    def namespace(self):
        return common_ns()

    def run(self, f, case):
        g = new_graph()
        snap = snapshot(g)
        L = fresh_list("leaves_ids")
        C.assume(z3.ForAll([x], z3.Implies(L.s.mem(x), g.N[x])))
        C.ghost.update(g=g, L=L, L0=L.s.a)
        a0 = L.s.a
        r = f(g, L)
        if r is not L:
            raise ContractBindError("include_debug_nodes is expected to return the (extended) list it was given")
        for nm, goal, serves in include_debug_nodes_post(g, lambda t: a0[t], L.s.mem):
            C.check(goal, f"include_debug_nodes.post.{nm}", serves, "post")
        u_, s_ = bv("u!idn", Id), bv("s!idn", Id)
        C.check(z3.ForAll([u_, s_], z3.Implies(z3.And(L.s.mem(u_), E(u_, s_)), IncludeDebugNodes.settled(g, L.s.mem, s_))),
                "include_debug_nodes.post.C03.fixed_point_every_debug_successor_whose_parents_are_all_in_the_result_is_in_it", {"C03", "C13"}, "post")
        C.check(unchanged(g, snap), "include_debug_nodes.frame.C15.graph_untouched", {"C15"}, "frame")
        return "return"


# ---- extend_graph_with_debug_nodes ----------------------------------------------------------------------------------------
class ExtendGraphWithDebugNodes:
    module = "tawazi._dag.digraph"
    qualname = "DiGraphEx.extend_graph_with_debug_nodes"
    loops = {}

    def cases(self):
        return ["flag-off", "flag-on"]

    def namespace(self):
        return common_ns()

    def run(self, f, case):
        from contracts.dagproto import SCfg

        orig = new_graph("original_graph")
        me = SDiGraphEx(name="self")
        me.owner = "fresh"
        # precondition (call sites: self = dag.graph_ids itself, or make_subgraph(...) of it): self is a sub-graph of
        # original and carries original's debug table
        C.assume(z3.ForAll([x], z3.Implies(me.N[x], orig.N[x])), me.debug.val == orig.debug.val)
        cfg = SCfg()
        C.assume(sym.tb(cfg.RUN_DEBUG_NODES) == z3.BoolVal(case == "flag-on"))
        so, sm = snapshot(orig), snapshot(me)
        tabs = (me.compound_priority, me.debug, me.setup, me.tag)
        r = f(me, orig, cfg)
        n = "extend_graph_with_debug_nodes.post"
        if not isinstance(r, SDiGraphEx):
            raise ContractBindError("extend_graph_with_debug_nodes does not return a graph")
        dbg = sm[3]
        C.check(z3.BoolVal(r is not me and r is not orig and not getattr(r, "is_view", False)), f"{n}.C15.fresh_graph", {"C15", "C16"}, "post")
        if case == "flag-off":
            C.check(z3.ForAll([x], z3.Implies(r.N[x], z3.Not(dbg[x]))), f"{n}.C13.flag_off_no_debug_node", {"C13"}, "post")
            C.check(z3.ForAll([x], r.N[x] == z3.And(me.N[x], z3.Not(dbg[x]))), f"{n}.C13.flag_off_exactly_the_non_debug_selection", {"C13", "C12", "C03"}, "post")
        else:
            C.check(z3.ForAll([x], z3.Implies(sm[0][x], r.N[x])), f"{n}.C13.flag_on_keeps_the_selection", {"C13", "C12"}, "post")
            C.check(z3.ForAll([x], z3.Implies(z3.And(r.N[x], z3.Not(sm[0][x])), z3.And(dbg[x], so[0][x]))), f"{n}.C13.flag_on_adds_only_debug_nodes", {"C13", "C12"}, "post")
            C.check(z3.ForAll([x, u], z3.Implies(z3.And(r.N[x], z3.Not(sm[0][x]), so[0][u], E(u, x)), r.N[u])), f"{n}.C13.flag_on_added_debug_nodes_have_all_inputs", {"C13"}, "post")
        C.check(z3.ForAll([x], z3.Implies(r.N[x], so[0][x])), f"{n}.within_the_original_graph", {"C12", "C14"}, "post")
        C.check(z3.And(r.compound_priority.val == sm[2], r.debug.val == sm[3], r.setup.val == sm[4], r.tag.val == sm[5]), f"{n}.C06.tables_carried", {"C06", "C13", "C07"}, "post")
        C.check(z3.And(unchanged(orig, so), unchanged(me, sm)), "extend_graph_with_debug_nodes.frame.C15.inputs_untouched", {"C15"}, "frame")
        return "return"


# ---- assign_compound_priority ------------------------------------------------------------------------------------------
def desc_set(N, n):
    q = bv("v!L", Id)
    return z3.Lambda([q], z3.And(Reach(N, n, q), q != n))


class AssignCompoundPriority:
    module = "tawazi._dag.digraph"
    qualname = "DiGraphEx.assign_compound_priority"

    def __init__(self):
        self.loops = {0: self.Loop()}

    class Loop(LoopSpec):
        carried = ()

        def modifies(self, env):
            return [C.ghost["g"].compound_priority]

        def inv(self, env, st):
            g, own, N = C.ghost["g"], C.ghost["own"], C.ghost["N"]
            cp = g.compound_priority.val
            op = env.get("own_priority")
            if not isinstance(op, SMap):
                raise ContractBindError("assign_compound_priority: own_priority snapshot not found")
            return [
                ("snapshot_is_own_priority", z3.ForAll([x], z3.And(op.dom[x] == N[x], z3.Implies(N[x], op.val[x] == own[x]))), {"C07"}),
                ("seen_nodes_have_their_compound_priority", z3.ForAll([x], z3.Implies(st.seen[x], cp[x] == own[x] + setsum(own, desc_set(N, x)))), {"C07", "C06"}),
                ("unseen_nodes_untouched", z3.ForAll([x], z3.Implies(z3.Not(st.seen[x]), cp[x] == own[x])), {"C07"}),
            ]

    def namespace(self):
        return common_ns()

    def run(self, f, case):
        g = new_graph()
        reach_theory().register(g.N)
        own = g.compound_priority.val  # precondition (from_exec_nodes): the table holds the own priorities
        N = g.N
        C.ghost.update(g=g, own=own, N=N)
        snap = snapshot(g)
        f(g)
        cp = g.compound_priority.val
        # oracle of C07: own priority + sum over the SET of distinct strict descendants
        C.check(z3.ForAll([x], z3.Implies(N[x], cp[x] == own[x] + setsum(own, desc_set(N, x)))), "assign_compound_priority.post.C07.own_plus_sum_over_the_set_of_descendants", {"C07", "C06"}, "post")
        C.check(z3.ForAll([x], z3.Implies(z3.Not(N[x]), cp[x] == own[x])), "assign_compound_priority.post.C07.other_entries_untouched", {"C07"}, "post")
        C.check(z3.And(g.N == snap[0], g.debug.val == snap[3], g.setup.val == snap[4]), "assign_compound_priority.frame.graph_and_other_tables_untouched", {"C15", "C13"}, "frame")
        return "return"


# ---- remove_any_root_node ---------------------------------------------------------------------------------------------
class RemoveAnyRootNode:
    """DiGraphEx.remove_any_root_node: removes and returns SOME node without predecessor; ValueError iff there is none"""

    module = "tawazi._dag.digraph"
    qualname = "DiGraphEx.remove_any_root_node"

    def __init__(self):
        self.loops = {0: self.Loop()}

    class Loop(LoopSpec):
        carried = ()

        def inv(self, env, st):
            g = C.ghost["g"]
            return [
                ("graph_untouched_while_searching", g.N == C.ghost["N0"], {"C20", "C15"}),
                ("seen_nodes_are_not_roots", z3.ForAll([x], z3.Implies(st.seen[x], z3.Not(g.is_root(x, C.ghost["N0"])))), {"C20", "C09"}),
            ]

    def namespace(self):
        return common_ns()

    def run(self, f, case):
        g = new_graph()
        N0, c0 = g.N, g.cN
        C.ghost.update(g=g, N0=N0)
        n = "remove_any_root_node"
        try:
            r = f(g)
        except ValueError:
            C.check(z3.ForAll([x], z3.Not(g.is_root(x, N0))), f"{n}.exceptional.ValueError_only_if_no_node_is_a_root", {"C20", "C14"}, "post")
            C.check(g.N == N0, f"{n}.exceptional.graph_untouched", {"C15"}, "post")
            return "raises ValueError"
        rt = term(r)
        C.check(g.is_root(rt, N0), f"{n}.post.C20.the_removed_node_had_no_predecessor_in_the_graph", {"C20", "C02"}, "post")
        C.check(z3.And(g.N == z3.Store(N0, rt, False), g.cN == c0 - 1), f"{n}.post.C20.exactly_that_node_is_removed", {"C20", "C09"}, "post")
        return "return"


# ---- get_tagged_nodes ---------------------------------------------------------------------------------------------------
tag_member = z3.Function("tag_is_in_tag_list", sym.Val, sym.Val, B)  # `tag in tags` for a tag-list value of the table


class STagList(sym.SVal):
    """an entry of graph.tag: None or a list of tags"""

    def _vc_contains(self, tag):
        return SBool(tag_member(self.t, term(tag, sym.Val)))


class GetTaggedNodes:
    """DiGraphEx.get_tagged_nodes(tag): exactly the nodes whose entry in the tag table is a list containing the tag
    (an entry None = no tag); this is what alias_to_ids resolves a tag with (C12)"""

    module = "tawazi._dag.digraph"
    qualname = "DiGraphEx.get_tagged_nodes"
    loops = {}

    def namespace(self):
        return common_ns()

    def run(self, f, case):
        g = new_graph()
        snap = snapshot(g)
        g.tag.wrapv = lambda t_: STagList(t_)
        tag = sym.SVal(C.fresh("tag", sym.Val))
        r = mem_of(f(g, tag))
        tv = g.tag.val
        C.check(z3.ForAll([x], r.mem(x) == z3.And(tv[x] != sym.none, tag_member(tv[x], tag.t))), "get_tagged_nodes.post.C12.exactly_the_nodes_whose_tag_list_contains_the_tag", {"C12", "C19"}, "post")
        C.check(unchanged(g, snap), "get_tagged_nodes.frame.C15.graph_untouched", {"C15"}, "frame")
        return "return"
