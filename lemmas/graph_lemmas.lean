/-
DESIGN-PHASE EXPERIMENT (see README.md): the two inductive graph facts that the SMT proofs will use as
axiom instances (DESIGN.md section 2.5).  Checked with `lean graph_lemmas.lean` (Lean 4.33 + Mathlib).
-/
import Mathlib.Data.Finset.Max
import Mathlib.Logic.Relation

/-- L1: a finite non-empty node set with an integer rank has a rank-minimal element
    (used for C09: a non-empty remaining graph of an acyclic DAG has a node without predecessor in it). -/
theorem exists_min_rank {α : Type} (S : Finset α) (rank : α → ℤ) (h : S.Nonempty) :
    ∃ m ∈ S, ∀ y ∈ S, rank m ≤ rank y :=
  Finset.exists_min_image S rank h

/-- L2: from a member of a successor-closed node set, every reachable node is in the set and is reachable
    inside the induced subgraph (used for C12: closures computed on pruned graphs equal closures in the DAG). -/
theorem reach_in_closed {α : Type} (E : α → α → Prop) (S : α → Prop)
    (hcl : ∀ u v, S u → E u v → S v) {a t : α} (ha : S a)
    (h : Relation.ReflTransGen E a t) :
    Relation.ReflTransGen (fun u v => E u v ∧ S u ∧ S v) a t ∧ S t := by
  induction h with
  | refl => exact ⟨Relation.ReflTransGen.refl, ha⟩
  | tail _ hbc ih =>
    obtain ⟨hab, hb⟩ := ih
    have hc := hcl _ _ hb hbc
    exact ⟨hab.tail ⟨hbc, hb, hc⟩, hc⟩
