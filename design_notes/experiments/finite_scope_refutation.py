# DESIGN-PHASE EXPERIMENT (a hand-written model, not the verification framework; see README.md).
# VC: one removal of an observed-done in-flight node (the body of `for done_future in done_` in
# wait_for_finished_nodes) preserves the scheduler invariant, given DiGraphEx.remove_root_node's contract.
# mutant=True drops the in-degree test from that contract. Shows: unbounded proof, finite-scope counterexample, cvc5.
import os, subprocess, tempfile, time
from z3 import (And, ArraySort, BoolSort, Const, Consts, DeclareSort, EnumSort, ForAll, Function, Implies, IntSort, Not,
                Or, Solver, Store, is_true, sat)


def build(Id, mutant):
    SetId = ArraySort(Id, BoolSort())
    E = Function('E', Id, Id, BoolSort()); rank = Function('rank', Id, IntSort())
    x, u, v = Consts('x u v', Id)
    G, runnable, started, finished, Sel, G2, runnable2, finished2, newroots = Consts(
        'G runnable started finished Sel G2 runnable2 finished2 newroots', SetId)
    fid = Const('fid', Id)

    def inv(G, runnable, started, finished):
        infl = lambda a: And(started[a], Not(finished[a]))
        return And(ForAll([x], Implies(G[x], Sel[x])), ForAll([x], Implies(Sel[x], G[x] != finished[x])),
                   ForAll([x], Implies(started[x], Sel[x])), ForAll([x], Implies(finished[x], Sel[x])),
                   ForAll([x], Implies(infl(x), G[x])),
                   ForAll([x], runnable[x] == And(G[x], Not(started[x]), ForAll([u], Implies(G[u], Not(E(u, x)))))),
                   ForAll([x, u], Implies(And(infl(x), G[u]), Not(E(u, x)))))
    s = Solver(); s.set('timeout', 60000)
    s.add(ForAll([u, v], Implies(E(u, v), rank(u) < rank(v))), inv(G, runnable, started, finished), started[fid], Not(finished[fid]))
    if mutant: s.add(ForAll([x], newroots[x] == And(E(fid, x), G[x])))
    else: s.add(ForAll([x], newroots[x] == And(E(fid, x), G[x], ForAll([u], Implies(And(G[u], E(u, x)), u == fid)))))
    s.add(G2 == Store(G, fid, False), finished2 == Store(finished, fid, True))
    s.add(ForAll([x], runnable2[x] == Or(runnable[x], newroots[x])))
    s.add(Not(inv(G2, runnable2, started, finished2)))
    return s, dict(G=G, started=started, finished=finished, fid=fid, E=E)


if __name__ == '__main__':
    for mut in (False, True):
        s, _ = build(DeclareSort('Id'), mut)
        t = time.time(); print(f'z3 unbounded, mutant={mut}:', s.check(), round(time.time() - t, 2), 's')
    for k in (2, 3, 4):
        Id, elems = EnumSort(f'Id{k}', [f'n{k}_{i}' for i in range(k)])
        s, vs = build(Id, True)
        t = time.time(); r = s.check(); print(f'z3 finite scope k={k}, mutant=True:', r, round(time.time() - t, 3), 's')
        if r == sat:
            m = s.model()
            print('   observed-done node =', m.eval(vs['fid']),
                  ' edges =', [(a, b) for a in elems for b in elems if is_true(m.eval(vs['E'](a, b)))],
                  ' remaining graph =', [a for a in elems if is_true(m.eval(vs['G'][a]))],
                  ' started =', [a for a in elems if is_true(m.eval(vs['started'][a]))])
            break
    with tempfile.TemporaryDirectory() as d:
        for mut in (False, True):
            s, _ = build(DeclareSort('Id'), mut)
            p = os.path.join(d, f'vc_{mut}.smt2'); open(p, 'w').write('(set-logic ALL)\n' + s.to_smt2())
            for extra in ([], ['--finite-model-find']):
                t = time.time()
                out = subprocess.run(['/usr/bin/cvc5', '--tlimit=60000', *extra, p], capture_output=True, text=True)
                print(f'cvc5 {" ".join(extra) or "(default)"} mutant={mut}:', out.stdout.strip(), round(time.time() - t, 2), 's')
