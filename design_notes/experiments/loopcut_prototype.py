# DESIGN-PHASE EXPERIMENT (throwaway prototype, NOT the verification framework; see README.md).
# Question: does the central mechanism of DESIGN.md section 2 work end to end on real source --
#   extract from /repo -> mechanical rewrite (len, for-loop cut R3) -> run natively on z3-backed proxies with forks,
#   contract stubs (wait, remove_root_node), exceptions -> clause-level obligations -> z3 ?
# Answer: yes. 4 paths, 21 obligations from the real wait_for_finished_nodes, all unsat, 0.1 s total; dropping the
#   `.result()` line on a scratch copy (swallowing a node failure) fails "finished = finished0 + ids(seen)".
# Usage: python3-vt loopcut_prototype.py [repo_root]
import ast, sys, time
from z3 import *
REPO = sys.argv[1] if len(sys.argv) > 1 else '/repo'
Id = DeclareSort('Id'); Fut = DeclareSort('Fut')
SetId = ArraySort(Id, BoolSort()); SetFut = ArraySort(Fut, BoolSort())
E = Function('E', Id, Id, BoolSort())
node_of = Function('node_of', Fut, Id)          # futures.inverse  (BiDict => injective on the futures we hold)
failed = Function('failed', Fut, BoolSort())    # does future.result() raise?
class PathEnd(Exception): pass
class NodeFailure(Exception): pass
N = [0]
def fresh(n, s): N[0] += 1; return Const(f'{n}!{N[0]}', s)
def freshf(n, *sig): N[0] += 1; return Function(f'{n}!{N[0]}', *sig)
x, u, f_, g_ = Const('x', Id), Const('u', Id), Const('f', Fut), Const('g', Fut)

class Ctx:
    def reset(self, prefix): self.pc = []; self.prefix = list(prefix); self.dec = []; self.pending = []; self.obl = []; self.trace = []
    def fork(self, cond, why=''):
        i = len(self.dec)
        if i < len(self.prefix): d = self.prefix[i]
        else: d = True; self.pending.append(self.dec + [False])
        self.dec.append(d); self.trace.append((why, d)); self.pc.append(cond if d else Not(cond)); return d
    def assume(self, *c): self.pc.extend(c)
    def check(self, c, label): self.obl.append((label, list(self.pc), c))
C = Ctx()

class SBool:
    def __init__(s, t): s.t = t
    def __bool__(s): return C.fork(s.t, 'bool')
class SInt:
    def __init__(s, t): s.t = t
    def __eq__(s, o): return SBool(s.t == (o.t if isinstance(o, SInt) else o))
    __hash__ = None
class SId:
    def __init__(s, t): s.t = t
class SFut:
    def __init__(s, t): s.t = t
    def result(s):
        if C.fork(failed(s.t), 'future failed'): raise NodeFailure(s.t)
        G.finished = Store(G.finished, node_of(s.t), True)     # ghost effect of observing a normal completion
        return None
    def __hash__(s): return 0
class SSet:
    """set proxy with ghost cardinality; sort-generic"""
    def __init__(s, arr, card, sort): s.a, s.c, s.sort = arr, card, sort
    @staticmethod
    def new(name, sort):
        S = SSet(fresh(name, ArraySort(sort, BoolSort())), fresh('c_' + name, IntSort()), sort); S.ax(); return S
    def ax(s):
        v = Const('v', s.sort); el = fresh('el', s.sort)
        C.assume(s.c >= 0, Implies(s.c == 0, ForAll([v], Not(s.a[v]))), Implies(s.c > 0, s.a[el]))
    def union(s, o):
        v = Const('v', s.sort); r = SSet.new('un', s.sort); C.assume(ForAll([v], r.a[v] == Or(s.a[v], o.a[v]))); return r
    def __ior__(s, o):
        v = Const('v', s.sort); n = fresh('ior', ArraySort(s.sort, BoolSort())); C.assume(ForAll([v], n[v] == Or(s.a[v], o.a[v])))
        s.a = n; s.c = fresh('c', IntSort()); s.ax(); return s
    def havoc(s): s.a = fresh('hv', ArraySort(s.sort, BoolSort())); s.c = fresh('c', IntSort()); s.ax()
class Ghost: pass
G = Ghost()
class SymGraph:
    def __init__(s): s.N = fresh('N', SetId)
    def remove_root_node(s, r):        # CONTRACT STUB of DiGraphEx.remove_root_node (proved separately vs its real body)
        C.check(s.N[r.t], 'pre remove_root_node: node in graph')
        old = s.N; s.N = Store(old, r.t, False)
        res = SSet.new('released', Id)
        C.assume(ForAll([x], res.a[x] == And(old[x], E(r.t, x), ForAll([u], Implies(And(old[u], u != r.t), Not(E(u, x)))))))
        return res
    def havoc(s): s.N = fresh('Nhv', SetId)
class Futures:                          # BiDict proxy: .inverse[f] -> id ; [id] -> future
    class _Inv:
        def __getitem__(s, f): return SId(node_of(f.t))
    inverse = _Inv()
    def __getitem__(s, i): return SFut(G.fut_of(i.t))
class Logger:
    def debug(self, *a, **k): pass

def wait_stub(running, return_when):    # TRUSTED contract of concurrent.futures.wait (FIRST_COMPLETED)
    D = SSet.new('done_', Fut); R = SSet.new('notdone', Fut)
    C.assume(ForAll([f_], running.a[f_] == Or(D.a[f_], R.a[f_])), ForAll([f_], Not(And(D.a[f_], R.a[f_]))), D.c >= 1, D.c + R.c == running.c)
    return D, R

# ---------------- loop-cut runtime (R3) ----------------
class ForState: pass
FS = {}
def for_begin(k, it, env):
    st = ForState(); st.it = it; st.seen = K(it.sort, False); st.env0 = dict(env); FS[k] = st
    for lbl, cl in inv_for(env, st.seen): C.check(cl, f'loop{k} entry: {lbl}')
    # havoc the modifies set IN PLACE (aliasing preserved), then assume the invariant for an arbitrary `seen`
    env['graph'].havoc(); env['runnable_xns_ids'].havoc(); G.finished = fresh('fin_hv', SetId)
    st.seen = fresh('seen', ArraySort(it.sort, BoolSort()))
    v = Const('v', it.sort); C.assume(ForAll([v], Implies(st.seen[v], it.a[v])))
    C.assume(*[cl for _, cl in inv_for(env, st.seen)])
def for_has_next(k):
    st = FS[k]; st.cur = fresh('cur', st.it.sort)
    v = Const('v', st.it.sort)
    more = C.fork(And(st.it.a[st.cur], Not(st.seen[st.cur])), 'loop has next')
    if not more: C.pc.pop(); C.assume(ForAll([v], st.seen[v] == st.it.a[v]))     # exit: seen == iterable
    return more
def for_pick(k): return SFut(FS[k].cur)
def for_back(k, env):
    st = FS[k]
    for lbl, cl in inv_for(env, Store(st.seen, st.cur, True)): C.check(cl, f'loop{k} back edge: {lbl}')
    raise PathEnd()
def vc_len(o): return SInt(o.c)

# ---------------- contract (sidecar) ----------------
def ready(Nset, started, a): return And(Nset[a], Not(started[a]), ForAll([u], Implies(Nset[u], Not(E(u, a)))))
def inv_for(env, seen):
    """Inv of the for loop: state after having processed the futures in `seen` (ids removed, finished, successors released)."""
    g, run = env['graph'], env['runnable_xns_ids']
    ids_seen = lambda a: Exists([g_], And(seen[g_], node_of(g_) == a))
    return [
        ('G = G0 - ids(seen)', ForAll([x], g.N[x] == And(G.N0[x], Not(Exists([g_], And(seen[g_], node_of(g_) == x)))))),
        ('finished = finished0 + ids(seen)', ForAll([x], G.finished[x] == Or(G.fin0[x], Exists([g_], And(seen[g_], node_of(g_) == x))))),
        ('runnable = ready set (I4)', ForAll([x], run.a[x] == ready(g.N, G.started, x))),
    ]
def pre(env):
    g, running = env['graph'], env['running']
    infl = lambda a: And(G.started[a], Not(G.finished[a]))
    return [
        ForAll([f_], Implies(running.a[f_], And(g.N[node_of(f_)], infl(node_of(f_)), G.fut_of(node_of(f_)) == f_))),   # I3 + BiDict
        ForAll([f_, g_], Implies(And(running.a[f_], running.a[g_], node_of(f_) == node_of(g_)), f_ == g_)),            # injective
        ForAll([x, u], Implies(And(infl(x), g.N[u]), Not(E(u, x)))),                                                     # I5
        ForAll([x], Implies(infl(x), g.N[x])),
        ForAll([x], Implies(G.finished[x], And(G.started[x], Not(g.N[x])))),                                            # I1/I2
        ForAll([x], env['runnable_xns_ids'].a[x] == ready(g.N, G.started, x)),                                           # I4
    ]

# ---------------- extraction + rewrite of the REAL source ----------------
def extract(path, fn):
    for n in ast.walk(ast.parse(open(path).read())):
        if isinstance(n, (ast.FunctionDef, ast.AsyncFunctionDef)) and n.name == fn: return n
class Rewrite(ast.NodeTransformer):
    k = -1
    def visit_Call(self, node):
        self.generic_visit(node)
        if isinstance(node.func, ast.Name) and node.func.id == 'len': node.func = ast.Name('__vc_len', ast.Load())
        return node
    def visit_For(self, node):
        self.generic_visit(node); Rewrite.k += 1; k = Rewrite.k
        L = lambda src: ast.parse(src).body
        begin = L(f'__vc_for_begin({k}, __ITER__, locals())')[0]; begin.value.args[1] = node.iter
        iff = L(f'if __vc_for_has_next({k}):\n    __T__ = __vc_for_pick({k})')[0]
        iff.body[0].targets = [node.target]
        iff.body += node.body + L(f'__vc_for_back({k}, locals())')
        return [begin, iff]
fn = extract(f'{REPO}/tawazi/_dag/helpers.py', 'wait_for_finished_nodes')
fn.returns = None; fn.decorator_list = []
for a in fn.args.args: a.annotation = None
fn.body = fn.body[1:] if isinstance(fn.body[0], ast.Expr) and isinstance(fn.body[0].value, ast.Constant) else fn.body
fn = ast.fix_missing_locations(Rewrite().visit(fn))
src = ast.unparse(ast.Module([fn], []))
print('------ rewritten real source ------'); print(src); print('-----------------------------------')
ns = {'__vc_len': vc_len, '__vc_for_begin': for_begin, '__vc_for_has_next': for_has_next, '__vc_for_pick': for_pick, '__vc_for_back': for_back,
      'wait': wait_stub, 'logger': Logger()}
exec(compile(src, '<extracted>', 'exec'), ns); real = ns['wait_for_finished_nodes']

def run_all():
    work = [[]]; paths = []; all_obl = []
    while work:
        prefix = work.pop(); C.reset(prefix); outcome = None
        graph = SymGraph(); running = SSet.new('running', Fut); done = SSet.new('done', Fut); runnable = SSet.new('runnable', Id)
        G.N0 = graph.N; G.started = fresh('started', SetId); G.finished = fresh('finished', SetId); G.fin0 = G.finished; G.fut_of = freshf('fut_of', Id, Fut)
        env = dict(graph=graph, running=running, runnable_xns_ids=runnable)
        C.assume(ForAll([Const('u', Id), Const('w', Id)], Implies(E(Const('u', Id), Const('w', Id)), Const('u', Id) != Const('w', Id))))
        C.assume(*pre(env)); run0 = running
        try:
            d2, r2, ru2 = real('FIRST_COMPLETED', graph, Futures(), done, running, runnable)
            outcome = 'return'
            if r2 is running:   # early return path: everything unchanged
                C.check(And(graph.N == G.N0, ru2.a == runnable.a), 'post(empty): nothing changed')
            else:
                # post(normal): exists D: partition; G' = G0 - ids(D); finished' = fin0 + ids(D); runnable' = ready; |running'| < |running|
                C.check(ForAll([x], ru2.a[x] == ready(graph.N, G.started, x)), 'post: runnable == ready set (I4)')
                C.check(ForAll([x], Implies(graph.N[x], G.N0[x])), 'post: graph only shrinks')
                C.check(ForAll([f_], Implies(And(run0.a[f_], Not(r2.a[f_])), And(Not(graph.N[node_of(f_)]), G.finished[node_of(f_)]))), 'post: every future no longer running is finished and removed')
                C.check(ForAll([f_], Implies(r2.a[f_], And(run0.a[f_], graph.N[node_of(f_)], Not(G.finished[node_of(f_)])))), 'post: still-running futures untouched (I3 kept)')
                C.check(r2.c < run0.c, 'post: progress |running| decreased (C09)')
                infl = lambda a: And(G.started[a], Not(G.finished[a]))
                C.check(ForAll([x, u], Implies(And(infl(x), graph.N[u]), Not(E(u, x)))), 'post: I5 kept')
        except PathEnd: outcome = 'back-edge'
        except NodeFailure as e:
            outcome = 'raises NodeFailure'
            C.check(graph.N[node_of(e.args[0])], 'exceptional post: failed node still in graph (C14)')
        paths.append((outcome, list(C.trace), len(C.obl))); all_obl += C.obl; work += C.pending
    return paths, all_obl
paths, obl = run_all()
for p in paths: print('path:', p)
t0 = time.time(); bad = 0
for label, pc, goal in obl:
    s = Solver(); s.set('timeout', 20000); s.add(*pc, Not(goal)); t = time.time(); r = s.check()
    if r != unsat: bad += 1
    print(f'  {str(r):8s} {time.time()-t:6.2f}s  {label}')
print(len(obl), 'obligations,', bad, 'not discharged, total', round(time.time() - t0, 1), 's')
