# DESIGN-PHASE EXPERIMENT (a hand-written model, not the verification framework; see README.md).
# Abstract encoding of ONE iteration of the `while len(graph)` loop of tawazi/_dag/helpers.py:async_execute,
# all branches, to find out whether the loop invariant planned in DESIGN.md section 4 is inductive, implies the
# per-property assertions (C02 C03 C04 C05 C06 C08 C09) and is within z3's reach.
# Encoding discipline: no quantifier alternation -- every "exists" is a per-state Skolem symbol.
import time, multiprocessing as mp
from z3 import (And, ArraySort, BoolSort, BoolVal, Const, Consts, DeclareSort, ForAll, Function, Implies, Int,
                IntSort, Not, Or, Solver)


def build():
    Id = DeclareSort('Id'); SetId = ArraySort(Id, BoolSort())
    E = Function('E', Id, Id, BoolSort()); rank = Function('rank', Id, IntSort())
    seq = Function('seq', Id, BoolSort()); res = Function('res', Id, IntSort())      # 0 thread, 1 async-thread, 2 main-thread
    cp = Function('cp', Id, IntSort()); active = Function('active', Id, BoolSort())
    Sel = Const('Sel', SetId); maxc = Int('maxc')
    x, u, v, y = Consts('x u v y', Id)
    cnt = [0]

    def fresh(n, s): cnt[0] += 1; return Const(f'{n}_{cnt[0]}', s)
    def freshf(n, *sig): cnt[0] += 1; return Function(f'{n}_{cnt[0]}', *sig)

    class St:
        F = ['G', 'runnable', 'started', 'finished', 'skipped', 'conc', 'asy', 'pend']
        I = ['cG', 'cConc', 'cAsy', 'cRun', 'cPend']
        def __init__(s, **kw): s.__dict__.update(kw)
        @staticmethod
        def new(tag):
            st = St(**{f: fresh(f + tag, SetId) for f in St.F}, **{i: fresh(i + tag, IntSort()) for i in St.I})
            st.wit = freshf('wit' + tag, Id, Id)       # an unfinished predecessor of a non-ready unstarted node
            st.el = {f: fresh('el_' + f + tag, Id) for f in ['G', 'conc', 'asy', 'runnable', 'pend']}
            return st

    def infl(s, a): return Or(s.conc[a], s.asy[a])
    def card_ax(S, c, el): return And(c >= 0, Implies(c == 0, ForAll([x], Not(S[x]))), Implies(c > 0, S[el]))

    def I4(s):   # runnable_xns_ids is exactly the ready set (sound / no-pred / complete-with-witness)
        return And(ForAll([x], Implies(s.runnable[x], And(s.G[x], Not(s.started[x])))),
                   ForAll([x, u], Implies(And(s.runnable[x], s.G[u]), Not(E(u, x)))),
                   ForAll([x], Implies(And(s.G[x], Not(s.started[x]), Not(s.runnable[x])), And(s.G[s.wit(x)], E(s.wit(x), x)))))

    def cards(s):
        return And(card_ax(s.G, s.cG, s.el['G']), card_ax(s.conc, s.cConc, s.el['conc']), card_ax(s.asy, s.cAsy, s.el['asy']),
                   card_ax(s.runnable, s.cRun, s.el['runnable']), card_ax(s.pend, s.cPend, s.el['pend']))

    def Inv(s, head=True):
        cl = [
            ForAll([x], Implies(s.G[x], Sel[x])),                                                   # I1
            ForAll([x], Implies(Sel[x], s.G[x] != Or(s.finished[x], s.skipped[x]))),
            ForAll([x], Not(And(s.finished[x], s.skipped[x]))),
            ForAll([x], Implies(Or(s.started[x], s.finished[x], s.skipped[x]), Sel[x])),            # I2
            ForAll([x], Implies(s.finished[x], s.started[x])), ForAll([x], Implies(s.skipped[x], Not(s.started[x]))),
            ForAll([x], infl(s, x) == And(s.started[x], Not(s.finished[x]))),                       # I3
            ForAll([x], Not(And(s.conc[x], s.asy[x]))),
            ForAll([x], Implies(s.conc[x], res(x) == 0)), ForAll([x], Implies(s.asy[x], res(x) == 1)),
            ForAll([x], Implies(infl(s, x), s.G[x])),
            I4(s),                                                                                  # I4
            ForAll([x, u], Implies(And(infl(s, x), s.G[u]), Not(E(u, x)))),                         # I5
            cards(s), s.cConc + s.cAsy <= maxc,                                                     # I6
            ForAll([x], s.pend[x] == And(s.G[x], Not(s.started[x]))),                               # I7
        ]
        if head: cl.append(ForAll([x], Implies(infl(s, x), Not(seq(x)))))                           # I8
        return cl

    static = [ForAll([u, v], Implies(E(u, v), rank(u) < rank(v))), maxc >= 1, ForAll([x], And(res(x) >= 0, res(x) <= 2))]
    def mu(s): return s.cG + s.cPend                                                                # loop variant
    def L1(s, m):   # lemma L1 instance (Lean-checked): non-empty finite G has a rank-minimal element m
        return Implies(s.cG > 0, And(s.G[m], ForAll([y], Implies(s.G[y], rank(m) <= rank(y)))))

    obligations = []
    def check(pc, goals, label):
        if not isinstance(goals, list): goals = [goals]
        for i, g in enumerate(goals): obligations.append((f'{label}#{i}' if len(goals) > 1 else label, static + pc, g))

    def wait(s, kind, mode, pc):
        """contract of wait_for_finished_nodes(_async): returns [(pc', state', blocked?)]"""
        S, c = (s.conc, s.cConc) if kind == 'conc' else (s.asy, s.cAsy)
        out = [(pc + [c == 0], s, False)]                      # nothing running: returns immediately
        D = fresh('D', SetId); cD = fresh('cD', IntSort()); eD = fresh('eD', Id); n = St.new('w')
        post = [c > 0, ForAll([x], Implies(D[x], S[x])), card_ax(D, cD, eD), cD >= 1,
                ForAll([x], n.G[x] == And(s.G[x], Not(D[x]))), n.cG == s.cG - cD,
                ForAll([x], n.finished[x] == Or(s.finished[x], D[x])), n.started == s.started, n.skipped == s.skipped,
                I4(n), cards(n), n.pend == s.pend, n.cPend == s.cPend]
        if mode == 'ALL': post.append(ForAll([x], D[x] == S[x]))
        if kind == 'conc': post += [ForAll([x], n.conc[x] == And(s.conc[x], Not(D[x]))), n.cConc == s.cConc - cD, n.asy == s.asy, n.cAsy == s.cAsy]
        else: post += [ForAll([x], n.asy[x] == And(s.asy[x], Not(D[x]))), n.cAsy == s.cAsy - cD, n.conc == s.conc, n.cConc == s.cConc]
        out.append((pc + post, n, True)); return out

    def c08(s, best_is_seq=False): return Or(s.cConc + s.cAsy == maxc, s.cRun == 0, BoolVal(best_is_seq))

    s0 = St.new('0'); m0 = fresh('m', Id); base = Inv(s0) + [s0.cG > 0, L1(s0, m0)]
    check(base, Or(s0.cRun > 0, s0.cConc + s0.cAsy > 0), 'C09 no-spin: G!={} => runnable!={} or inflight!={}')
    guard1 = Or(s0.cConc + s0.cAsy == maxc, s0.cRun == 0)
    paths = []
    for (pc1, s1, b1) in wait(s0, 'asy', 'FIRST', base + [guard1]):
        if b1: check(base + [guard1, s0.cAsy > 0], c08(s0), 'C08 @W1 (async wait, first-if)')
        for (pc2, s2, b2) in wait(s1, 'conc', 'FIRST', pc1):
            if b2: check(pc2, c08(s1), f'C08 @W2 (conc wait, first-if) async_wait_blocked_before={b1}')
            paths.append((pc2, s2, f'if(a={int(b1)},c={int(b2)})'))
    paths.append((base + [Not(guard1)], s0, 'skip-if'))
    for (pc, s, tag) in paths:
        pcc = pc + [s.cRun == 0]
        check(pcc, Inv(s), f'[{tag}] continue(no runnable): Inv'); check(pcc, And(mu(s) < mu(s0), mu(s) >= 0), f'[{tag}] continue(no runnable): decreases')
        h = fresh('h', Id)
        pcr = pc + [s.cRun > 0, s.runnable[h], ForAll([x], Implies(s.runnable[x], cp(x) <= cp(h)))]      # contract of max(.., key=cp)
        pcs = pcr + [seq(h), s.cConc + s.cAsy != 0]
        for (pa, sa, ba) in wait(s, 'asy', 'FIRST', pcs):
            for (pb, sb, bb) in wait(sa, 'conc', 'FIRST', pa):
                if bb: check(pb, Or(c08(sa), sa.runnable[h]), f'[{tag}] C08 @W4 seq candidate still ready (a={int(ba)})')
                check(pb, Inv(sb), f'[{tag}] seq-wait continue: Inv (a={int(ba)},c={int(bb)})')
                check(pb, And(mu(sb) < mu(s0), mu(sb) >= 0), f'[{tag}] seq-wait continue: decreases (a={int(ba)},c={int(bb)})')
        pcd = pcr + [Not(And(seq(h), s.cConc + s.cAsy != 0))]
        check(pcd, ForAll([u], Implies(And(Sel[u], E(u, h)), Or(s.finished[u], s.skipped[u]))), f'[{tag}] C02 deps of chosen node finished')
        check(pcd, Not(s.started[h]), f'[{tag}] C03 chosen node not started before')
        r = fresh('r', Id)
        check(pcd + [s.G[r], Not(s.started[r]), ForAll([u], Implies(s.G[u], Not(E(u, r))))], cp(r) <= cp(h), f'[{tag}] C06 chosen node has max cp among ready')
        check(pcd, Implies(seq(h), s.cConc + s.cAsy == 0), f'[{tag}] C05 sequential starts only when nothing in flight')
        check(pcd, ForAll([x], Implies(infl(s, x), Not(seq(x)))), f'[{tag}] C05 nothing sequential in flight at any dispatch')
        def rem(sN): return [ForAll([x], sN.G[x] == And(s.G[x], x != h)), sN.cG == s.cG - 1, I4(sN), cards(sN),
                             ForAll([x], sN.pend[x] == And(s.pend[x], x != h)), sN.cPend == s.cPend - 1]
        n = St.new('d')
        pcx = pcd + [Not(active(h))] + rem(n) + [n.started == s.started, n.finished == s.finished, ForAll([x], n.skipped[x] == Or(s.skipped[x], x == h)),
                                                 n.conc == s.conc, n.asy == s.asy, n.cConc == s.cConc, n.cAsy == s.cAsy]
        check(pcx, Inv(n), f'[{tag}] deactivated: Inv'); check(pcx, And(mu(n) < mu(s0), mu(n) >= 0), f'[{tag}] deactivated: decreases')
        pca = pcd + [active(h)]
        for kind, rv in (('conc', 0), ('asy', 1)):
            n = St.new('s')
            pck = pca + [res(h) == rv, ForAll([x], n.started[x] == Or(s.started[x], x == h)), n.G == s.G, n.cG == s.cG, n.finished == s.finished, n.skipped == s.skipped,
                         ForAll([x], n.runnable[x] == And(s.runnable[x], x != h)), cards(n), ForAll([x], n.wit(x) == s.wit(x)),
                         ForAll([x], n.pend[x] == And(s.pend[x], x != h)), n.cPend == s.cPend - 1]
            if kind == 'conc': pck += [ForAll([x], n.conc[x] == Or(s.conc[x], x == h)), n.cConc == s.cConc + 1, n.asy == s.asy, n.cAsy == s.cAsy]
            else: pck += [ForAll([x], n.asy[x] == Or(s.asy[x], x == h)), n.cAsy == s.cAsy + 1, n.conc == s.conc, n.cConc == s.cConc]
            check(pck, s.cConc + s.cAsy < maxc, f'[{tag}] C04 submit {kind}: in-flight < max_concurrency')
            pn = pck + [Not(seq(h))]; check(pn, Inv(n), f'[{tag}] submit {kind} nonseq: Inv'); check(pn, And(mu(n) < mu(s0), mu(n) >= 0), f'[{tag}] submit {kind} nonseq: decreases')
            ps = pck + [seq(h)]
            for (pa, sa, ba) in wait(n, 'asy', 'ALL', ps):
                for (pb, sb, bb) in wait(sa, 'conc', 'ALL', pa):
                    check(pb, Inv(sb), f'[{tag}] submit {kind} seq +waitALL: Inv (a={int(ba)},c={int(bb)})')
                    check(pb, And(mu(sb) < mu(s0), mu(sb) >= 0), f'[{tag}] submit {kind} seq: decreases (a={int(ba)},c={int(bb)})')
        n = St.new('m')
        pcm = pca + [res(h) == 2] + rem(n) + [ForAll([x], n.started[x] == Or(s.started[x], x == h)), ForAll([x], n.finished[x] == Or(s.finished[x], x == h)), n.skipped == s.skipped,
                                                n.conc == s.conc, n.asy == s.asy, n.cConc == s.cConc, n.cAsy == s.cAsy]
        check(pcm, Inv(n), f'[{tag}] inline: Inv'); check(pcm, And(mu(n) < mu(s0), mu(n) >= 0), f'[{tag}] inline: decreases')
    se = St.new('e')
    check(Inv(se) + [se.cG == 0], ForAll([x], Implies(Sel[x], Or(se.finished[x], se.skipped[x]))), 'exit: every selected node executed or deactivated')
    check(Inv(se) + [se.cG == 0], se.cConc + se.cAsy == 0, 'exit: nothing in flight')
    return obligations


def work(i):
    label, hyps, goal = build()[i]
    s = Solver(); s.set('timeout', 20000); s.add(*hyps); s.add(Not(goal)); t = time.time(); r = s.check()
    return (label, str(r), round(time.time() - t, 2))


if __name__ == '__main__':
    n = len(build()); print('obligations:', n, flush=True)
    t0 = time.time(); bad = []; slow = 0.0
    with mp.Pool(14) as p:
        for (label, r, dt) in p.imap_unordered(work, range(n)):
            slow = max(slow, dt if r == 'unsat' else 0.0)
            if r != 'unsat': bad.append((label, r, dt)); print('  NOT DISCHARGED', label, r, dt, flush=True)
    print('done', n, 'obligations;', len(bad), 'not discharged; slowest discharged query', slow, 's; wall', round(time.time() - t0, 1), 's', flush=True)
